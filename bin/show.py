import json,sys
r=json.load(open(sys.argv[1]))
if r.get('error'): print('ERROR', r['error'][:2000]); sys.exit()
print(r['harness'], r['bounds'], 'threads',len(r['threads']), 'ops',r['op_instances'], 'yields',r['schedule_vars'], 'terms', r['terms'], 'enc %.1fs solve %.1fs'%(r['encode_s'], r['solve_s']))
for t in r['threads']: print('  ',t)
if r.get('racy_cells'): print('  racy:', r['racy_cells'])
for o in r['obligations']:
    print(' OB', o['id'], o.get('window',''), o['verdict'], '%.2fs'%o['time_s'], 'nodes',o.get('nodes'), o.get('detail',''))
    c=o.get('cex')
    if c and '-v' in sys.argv:
        print('    nondets', c['nondets']); print('    crashes', c.get('crashes')); print('    windows', c.get('windows'))
        for s in c['trace']: print('     T%d r%d %-22s %s  %s'%(s['t'],s['r'],s['op'],s['pos'],s.get('fn','').split('/')[-1]))
for o in r['reach']: print(' REACH', o['id'], o['verdict'], '%.2fs'%o['time_s'])
for l in r['loops'] or []: print(' LOOP', l)
