#!/bin/bash
# exploration: which harnesses can be decided one round deeper? (writes to a scratch directory only)
export VERIF_OUT=${VERIF_OUT:-/tmp/verif-sweep}
mkdir -p $VERIF_OUT
cd "$(dirname "$0")/.."
while read p h; do
  s=$(date +%s)
  out=$(timeout 1500 ./check $p --harness $h --set R=3 --set timeout=600 2>&1); rc=$?
  echo "$p $h R=3 exit=$rc $(( $(date +%s)-s ))s :: $(echo "$out" | grep -c INCONCLUSIVE) inconclusive, $(echo "$out" | grep -c VIOLATION) violations"
  echo "$out" | grep "VIOLATION\|INCONCLUSIVE" | head -3 | cut -c1-200 | sed 's/^/    /'
done <<L
C01 H_C01_m2
C02 H_C02_m
C02 H_C02_tune
C03 H_C03_saturated_m
C05 H_C05_batchwait
C05 H_C05_result
C06 H_C06_two_waiters
C07 H_C07_two_readers
C08 H_C08_groupclose2
C08 H_C08_groupclose3
C09 H_C09_burst
C10 H_C10_cancel
C10 H_C10_purge
C10 H_C10_closedqueue
C10 H_C10_close_executing
C11 H_C11_persistent
C11 H_C11_recover_loop
C13 H_C13_distributed
C14 H_C14_stop_vs_resume
C14 H_C14_ctx
C16 H_C16_pq_add
C16 H_C16_single
C17 H_C17_purge_vs_enqueue
C17 H_C17_len_fifo
C18 H_C18_pool_size_m
C18 H_C18_stop_noleak_expiry
L
