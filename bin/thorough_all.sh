#!/bin/bash
# run in a vp snapshot: cwd is the snapshot of /verif
cd engine && GOFLAGS=-mod=mod GOPROXY=off GOTOOLCHAIN=local go1.26.8 build -o ../bin/gobmc . && cd ..
for i in 01 02 03 04 05 06 07 08 09 10 11 12 13 14 15 16 17 18 19; do
  s=$(date +%s)
  out=$(./check C$i --tier thorough 2>&1); rc=$?
  echo "C$i exit=$rc $(( $(date +%s)-s ))s :: $(echo "$out" | tail -1 | cut -c1-200)"
  echo "$out" | grep "VIOLATION\|INCONCLUSIVE\|NOTE" | cut -c1-300
done
