package main

import (
	"fmt"
	"go/token"
	"go/types"
	"strings"

	"golang.org/x/tools/go/ssa"
)

func (w *W) calleeValue(f *frame, c *ssa.CallCommon) Value {
	if c.IsInvoke() {
		return w.val(f, c.Value)
	}
	return w.val(f, c.Value)
}

func (w *W) call(t *Thread, f *frame, x *ssa.Call, key int, g *Term) *Term {
	c := &x.Call
	args := make([]Value, len(c.Args))
	for i, a := range c.Args {
		args[i] = w.val(f, a)
	}
	r, og, pG, pV := w.doCall(f, c, w.calleeValue(f, c), args, key, g, x.Pos(), nil)
	f.raise(pG, pV)
	if r == nil && x.Type() != nil {
		if tup, ok := x.Type().(*types.Tuple); !ok || tup.Len() > 0 {
			r = zero(x.Type())
		}
	}
	f.set(x, r, og)
	return og
}

// doCall performs a call; returns result, normal-return guard, panic guard, panic value.
func (w *W) doCall(f *frame, c *ssa.CallCommon, fv Value, args []Value, key int, g *Term, pos token.Pos, recTarget *frame) (Value, *Term, *Term, Value) {
	t := f.t
	var res Value
	out, pOut := False, False
	var pVal Value
	acc := func(ag *Term, r Value, og, pG *Term, pV Value) {
		if r != nil {
			if res == nil {
				res = r
			} else {
				res = merge(ag, r, res)
			}
		}
		out = Or(out, og)
		if !pG.IsFalse() {
			if pVal == nil {
				pVal = pV
			} else if pV != nil {
				pVal = merge(pG, pV, pVal)
			}
			pOut = Or(pOut, pG)
		}
	}
	switch v := fv.(type) {
	case *ssa.Builtin:
		r, og := w.builtin(f, v, c, args, key, g, pos)
		return r, og, False, nil
	case *Iface:
		nilG := False
		for i, a := range v.alts {
			if a.typ == nil {
				nilG = Or(nilG, a.g)
				continue
			}
			ag := And(g, a.g)
			if ag.IsFalse() {
				continue
			}
			sel := w.prog.MethodSets.MethodSet(a.typ).Lookup(c.Method.Pkg(), c.Method.Name())
			if sel == nil {
				panic(fmt.Sprintf("cannot encode: method %s not found on %s", c.Method.Name(), a.typ))
			}
			m := w.prog.MethodValue(sel)
			cargs := append([]Value{a.val}, args...)
			if r, og, ok := w.intrinsic(f, m, cargs, mkKey(key, i, -1, 0), ag, pos, c); ok {
				acc(a.g, r, og, False, nil)
				continue
			}
			w.checkEncodable(m, pos)
			nf := w.newFrame(t, FAlt{g: True, fn: m}, f, mkKey(key, i, -2, 0))
			nf.recTarget = recTarget
			r, og, pG, pV := w.execFunc(t, nf, cargs, ag)
			acc(a.g, r, og, pG, pV)
		}
		if !And(g, nilG).IsFalse() {
			c := And(g, nilG)
			why := "nil interface method call at " + w.pos(pos)
			w.notePanic(c, why)
			acc(nilG, nil, False, c, w.runtimeErr(why))
		}
		return res, out, pOut, pVal
	case *Func:
		nilG := False
		for i, a := range v.alts {
			ag := And(g, a.g)
			if ag.IsFalse() {
				continue
			}
			if a.intr != "" {
				r, og := w.intrFuncValue(f, a, args, mkKey(key, i, -3, 0), ag, pos)
				acc(a.g, r, og, False, nil)
				continue
			}
			if a.fn == nil {
				nilG = Or(nilG, a.g)
				continue
			}
			if r, og, ok := w.intrinsic(f, a.fn, args, mkKey(key, i, -1, 0), ag, pos, c); ok {
				acc(a.g, r, og, False, nil)
				continue
			}
			w.checkEncodable(a.fn, pos)
			nf := w.newFrame(t, a, f, mkKey(key, i, -2, 0))
			nf.recTarget = recTarget
			r, og, pG, pV := w.execFunc(t, nf, args, ag)
			acc(a.g, r, og, pG, pV)
		}
		if !And(g, nilG).IsFalse() {
			c := And(g, nilG)
			why := "call of nil function at " + w.pos(pos)
			w.notePanic(c, why)
			acc(nilG, nil, False, c, w.runtimeErr(why))
		}
		return res, out, pOut, pVal
	}
	panic(fmt.Sprintf("cannot encode: call of %T at %s", fv, w.pos(pos)))
}

func (w *W) goStmt(t *Thread, f *frame, x *ssa.Go, key int, g *Term) *Term {
	c := &x.Call
	args := make([]Value, len(c.Args))
	for i, a := range c.Args {
		args[i] = w.val(f, a)
	}
	var fa FAlt
	switch v := w.calleeValue(f, c).(type) {
	case *Func:
		var live []FAlt
		for _, a := range v.alts {
			if a.fn != nil && !And(g, a.g).IsFalse() {
				live = append(live, a)
			}
		}
		if len(live) != 1 {
			panic("cannot encode: go statement with dynamic callee at " + w.pos(x.Pos()))
		}
		fa = live[0]
		fa.g = True
	case *Iface:
		var live []IAlt
		for _, a := range v.alts {
			if a.typ != nil && !And(g, a.g).IsFalse() {
				live = append(live, a)
			}
		}
		if len(live) != 1 {
			panic("cannot encode: go statement with dynamic receiver at " + w.pos(x.Pos()))
		}
		sel := w.prog.MethodSets.MethodSet(live[0].typ).Lookup(c.Method.Pkg(), c.Method.Name())
		fa = FAlt{g: True, fn: w.prog.MethodValue(sel)}
		args = append([]Value{live[0].val}, args...)
	default:
		panic("cannot encode: go statement")
	}
	if w.access != nil {
		for _, a := range args {
			w.publish(a)
		}
		w.publish(&Func{[]FAlt{fa}})
	}
	// thread slots: each static go statement owns N slots; an executing instance takes the first free one
	site := w.siteID(x)
	n := w.spawnCap(x, fa.fn)
	slots := w.slots[site]
	if slots == nil {
		if w.observe {
			return g
		}
		for j := 0; j < n; j++ {
			nt := &Thread{w: w, id: len(w.threads), ops: map[int]*opState{}, spawned: False, key: mkKey(0, -9, site, j), truncated: False, finished: False,
				name: fmt.Sprintf("go %s at %s [slot %d]", fa.fn.Name(), w.pos(x.Pos()), j)}
			nt.fn = fa
			nt.fromLib = !f.harness
			w.threads = append(w.threads, nt)
			slots = append(slots, nt)
		}
		w.slots[site] = slots
	}
	allTaken := True
	for _, s := range slots {
		allTaken = And(allTaken, s.spawned)
	}
	st := t.ops[key]
	if st == nil || !And(g, Not(st.done)).IsFalse() {
		// spawn cap exceeded: the spawning goroutine stops here and the state is excluded from quiescence
		var done *Term = False
		if st != nil {
			done = st.done
		}
		t.truncated = Or(t.truncated, And(g, Not(done), allTaken))
		w.noteSpawnCap(x, fa.fn, And(g, Not(done), allTaken))
	}
	var takes []spawnTake
	_, g = w.op(t, key, g, opSpec{yield: false, sync: true, pos: x.Pos(), kind: "go", enabled: Not(allTaken), spawn: &takes, effect: func(exec *Term) Value {
		free := True
		for _, s := range slots {
			take := And(exec, free, Not(s.spawned))
			free = And(free, s.spawned)
			if take.IsFalse() {
				continue
			}
			takes = append(takes, spawnTake{s.id, take})
			if s.args == nil || s.spawned.IsFalse() {
				s.args = args
				s.fn = mergeFA(take, fa, s.fn, s.spawned.IsFalse())
			} else {
				for k := range args {
					s.args[k] = merge(take, args[k], s.args[k])
				}
				s.fn = mergeFA(take, fa, s.fn, false)
			}
			s.spawned = Or(s.spawned, take)
		}
		return nil
	}})
	return g
}

func mergeFA(g *Term, a, b FAlt, fresh bool) FAlt {
	if fresh || b.fn == nil {
		c := a
		c.env = append([]Value(nil), a.env...)
		return c
	}
	if a.fn != b.fn || len(a.env) != len(b.env) {
		panic("cannot encode: go statement site with varying callee")
	}
	c := FAlt{g: True, fn: a.fn, env: make([]Value, len(a.env))}
	for i := range a.env {
		c.env[i] = merge(g, a.env[i], b.env[i])
	}
	return c
}

func (w *W) builtin(f *frame, b *ssa.Builtin, c *ssa.CallCommon, args []Value, key int, g *Term, pos token.Pos) (Value, *Term) {
	t := f.t
	switch b.Name() {
	case "len":
		switch a := args[0].(type) {
		case *Slice:
			return a.len, g
		case *Term: // string
			if a.IsConst() {
				return BV(64, uint64(len(strNames[a.val]))), g
			}
			return UF("strlen", 64, a), g
		case *Ptr: // channel
			var r Value
			r, g = w.op(t, key, g, opSpec{yield: true, sync: true, pos: pos, kind: "chanlen", effect: func(exec *Term) Value {
				var out Value = BV(64, 0)
				for _, al := range a.alts {
					if al.l != nil {
						out = merge(al.g, w.getCell(al.l.obj, "len", BV(64, 0)), out)
					}
				}
				return out
			}})
			if r == nil {
				r = BV(64, 0)
			}
			return r, g
		}
	case "cap":
		if a, ok := args[0].(*Slice); ok {
			return a.cap, g
		}
		if ch, ok := args[0].(*Ptr); ok {
			// channel capacity (the capv cell holds a symbolic make size, o.cap its maximum)
			var r *Term = BV(64, 0)
			for _, al := range ch.alts {
				if al.l != nil && al.l.obj.kind == "chan" {
					r = Ite(al.g, w.getCell(al.l.obj, "capv", BV(64, uint64(al.l.obj.cap))).(*Term), r)
				}
			}
			return r, g
		}
	case "min", "max":
		a, bb := args[0].(*Term), args[1].(*Term)
		var lt *Term
		if isUnsigned(c.Args[0].Type()) {
			lt = Ult(a, bb)
		} else {
			lt = Slt(a, bb)
		}
		if len(args) != 2 {
			panic("cannot encode: min/max arity")
		}
		if b.Name() == "min" {
			return Ite(lt, a, bb), g
		}
		return Ite(lt, bb, a), g
	case "close":
		return w.chanClose(f, args[0].(*Ptr), key, g, pos)
	case "append":
		return w.appendBuiltin(f, c, args[0].(*Slice), args[1], key, g, pos)
	case "recover":
		if f.recTarget == nil {
			return nilIface(), g
		}
		tf := f.recTarget
		rg := And(g, tf.panicG)
		var r Value = nilIface()
		if tf.panicV != nil {
			r = merge(rg, tf.panicV, nilIface())
		}
		tf.recovered = Or(tf.recovered, rg)
		tf.panicG = And(tf.panicG, Not(rg))
		return r, g
	case "print", "println":
		return nil, g
	case "ssa:wrapnilchk":
		p := args[0].(*Ptr)
		g = w.rtPanic(f, g, p.isNil(), "nil pointer dereference (wrapnilchk)", pos)
		return p, g
	case "copy":
		return w.copyBuiltin(f, c, args[0].(*Slice), args[1], key, g, pos)
	case "clear":
		sl, ok := args[0].(*Slice)
		if !ok {
			panic("cannot encode: clear of a map at " + w.pos(pos))
		}
		elem := c.Args[0].Type().Underlying().(*types.Slice).Elem()
		mx, okm := maxConst(sl.len)
		if !okm {
			panic("cannot encode: clear with non-enumerable length at " + w.pos(pos))
		}
		_, ng := w.op(t, key, g, opSpec{pos: pos, kind: "clear", effect: func(exec *Term) Value {
			for i := 0; i < int(mx); i++ {
				ig := And(exec, Slt(BV(64, uint64(i)), sl.len))
				w.storePtr(ig, w.elemPtr(sl.arr, Add(sl.off, BV(64, uint64(i))), 0), elem, zero(elem))
			}
			return nil
		}})
		return nil, ng
	}
	panic("cannot encode: builtin " + b.Name() + " at " + w.pos(pos))
}

func (w *W) sliceLocal(s *Slice) bool {
	for _, a := range s.arr.alts {
		if a.l != nil && !a.l.obj.local {
			return false
		}
	}
	return true
}

func (w *W) appendBuiltin(f *frame, c *ssa.CallCommon, s *Slice, tv Value, key int, g *Term, pos token.Pos) (Value, *Term) {
	t := f.t
	ts, ok := tv.(*Slice)
	if !ok {
		panic("cannot encode: append(bytes, string...)")
	}
	elem := c.Args[0].Type().Underlying().(*types.Slice).Elem()
	M64, okm := maxConst(ts.len)
	maxn, okn := maxConst(s.len)
	if !okm || !okn {
		panic("cannot encode: append with non-enumerable lengths at " + w.pos(pos))
	}
	M := int(M64)
	if M == 0 {
		return s, g
	}
	newLen := Add(s.len, ts.len)
	fits := Not(Slt(s.cap, newLen))
	obj, fresh := w.newObj(fmt.Sprintf("P%d:%d", t.id, key), elem, false)
	if fresh {
		obj.owner = t.id
		obj.ghost = f.harness
		obj.name = "append@" + w.pos(pos)
	}
	if int(maxn)+M > obj.n {
		obj.n = int(maxn) + M
	}
	obj.published = false
	if w.access != nil {
		w.publishThrough(s.arr, tv)
		if s.arr.isNil().IsTrue() {
			// growing from nil: the new array becomes reachable from wherever the result is stored
		}
	}
	do := func(exec *Term) Value {
		// elements to append
		elems := make([]Value, M)
		for j := 0; j < M; j++ {
			ev, _ := w.loadPtr(w.elemPtr(ts.arr, Add(ts.off, BV(64, uint64(j))), 0), elem)
			elems[j] = ev
		}
		// in place
		inG := And(exec, fits)
		if !inG.IsFalse() {
			for j := 0; j < M; j++ {
				jg := And(inG, Slt(BV(64, uint64(j)), ts.len))
				w.storePtr(jg, w.elemPtr(s.arr, Add(s.off, Add(s.len, BV(64, uint64(j)))), 0), elem, elems[j])
			}
		}
		// grow
		grG := And(exec, Not(fits))
		if !grG.IsFalse() {
			for i := 0; i < int(maxn); i++ {
				ig := And(grG, Slt(BV(64, uint64(i)), s.len))
				if ig.IsFalse() {
					continue
				}
				ev, _ := w.loadPtr(w.elemPtr(s.arr, Add(s.off, BV(64, uint64(i))), 0), elem)
				w.store(ig, mkLoc(obj, elemPath("", i)), elem, ev)
			}
			np := onePtr(mkLoc(obj, ""))
			for j := 0; j < M; j++ {
				jg := And(grG, Slt(BV(64, uint64(j)), ts.len))
				w.storePtr(jg, w.elemPtr(np, Add(s.len, BV(64, uint64(j))), 0), elem, elems[j])
			}
		}
		grown := &Slice{onePtr(mkLoc(obj, "")), BV(64, 0), newLen, newLen}
		inplace := &Slice{s.arr, s.off, newLen, s.cap}
		return merge(fits, inplace, grown)
	}
	r, ng := w.op(t, key, g, opSpec{pos: pos, kind: "append", effect: do})
	if r == nil {
		r = zero(c.Args[0].Type())
	}
	return r, ng
}

func (w *W) copyBuiltin(f *frame, c *ssa.CallCommon, d *Slice, sv Value, key int, g *Term, pos token.Pos) (Value, *Term) {
	s, ok := sv.(*Slice)
	if !ok {
		panic("cannot encode: copy from string")
	}
	elem := c.Args[0].Type().Underlying().(*types.Slice).Elem()
	n := Ite(Slt(d.len, s.len), d.len, s.len)
	mx, okm := maxConst(n)
	if !okm {
		panic("cannot encode: copy with non-enumerable length at " + w.pos(pos))
	}
	_, ng := w.op(f.t, key, g, opSpec{pos: pos, kind: "copy", effect: func(exec *Term) Value {
		vals := make([]Value, mx)
		for i := range vals {
			vals[i], _ = w.loadPtr(w.elemPtr(s.arr, Add(s.off, BV(64, uint64(i))), 0), elem)
		}
		for i := range vals {
			ig := And(exec, Slt(BV(64, uint64(i)), n))
			w.storePtr(ig, w.elemPtr(d.arr, Add(d.off, BV(64, uint64(i))), 0), elem, vals[i])
		}
		return nil
	}})
	return n, ng
}

// stdlib packages whose (plain Go) bodies are encoded from their SSA; anything else outside the module must be
// an intrinsic, otherwise the run stops instead of wandering into library internals.
var encodablePkgs = map[string]bool{"container/heap": true, "slices": true, "cmp": true, "sort": true, "math": true, "math/bits": true, "errors": true}

func (w *W) checkEncodable(fn *ssa.Function, pos token.Pos) {
	pkg := fn.Pkg
	if pkg == nil && fn.Origin() != nil {
		pkg = fn.Origin().Pkg
	}
	if pkg == nil {
		if fn.Parent() != nil {
			w.checkEncodable(fn.Parent(), pos)
		}
		return
	}
	p := pkg.Pkg.Path()
	if strings.HasPrefix(p, repoModule) || encodablePkgs[p] {
		return
	}
	panic("cannot encode: call to " + fn.String() + " at " + w.pos(pos) + " (no model for this standard-library function)")
}
