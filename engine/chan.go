package main

import (
	"fmt"
	"go/token"
	"go/types"

	"golang.org/x/tools/go/ssa"
)

func (w *W) chLen(o *Object) *Term    { return w.getCell(o, "len", BV(64, 0)).(*Term) }
func (w *W) chClosed(o *Object) *Term {
	switch o.kind {
	case "ctxdone":
		return w.ctxCancelled(o.cells["ctx"].(*Ptr).alts[0].l.obj)
	}
	return w.getCell(o, "closed", False).(*Term)
}

func (w *W) ctxCancelled(o *Object) *Term {
	c := w.getCell(o, "cancelled", False).(*Term)
	if p, ok := o.cells["parent"].(*Ptr); ok {
		for _, a := range p.alts {
			if a.l != nil {
				c = Or(c, And(a.g, w.ctxCancelled(a.l.obj)))
			}
		}
	}
	return c
}

func (w *W) recvReady(o *Object) *Term {
	switch o.kind {
	case "ticker":
		stopped := w.getCell(o, "stopped", False).(*Term)
		ticks := w.getCell(o, "ticks", BV(64, 0)).(*Term)
		return And(Not(stopped), Ult(ticks, BV(64, uint64(w.K))))
	case "ctxdone":
		return w.chClosed(o)
	}
	return Or(Not(Eq(w.chLen(o), BV(64, 0))), w.chClosed(o))
}

func (w *W) sendReady(o *Object) *Term {
	if o.kind != "chan" {
		panic("cannot encode: send on " + o.kind + " channel")
	}
	capv := w.getCell(o, "capv", BV(64, uint64(o.cap))).(*Term)
	return Or(w.chClosed(o), Ult(w.chLen(o), capv))
}

// chanCells: the cells a channel operation touches, for the conflict analysis of pass 1
func chanSpec(spec opSpec, ch *Ptr, write bool) opSpec {
	spec.syncCell = true
	spec.write = write
	for _, a := range ch.alts {
		if a.l == nil {
			continue
		}
		o := a.l.obj
		if o.kind == "ctxdone" {
			o = o.cells["ctx"].(*Ptr).alts[0].l.obj
		}
		spec.accCells = append(spec.accCells, o.key+"|")
		spec.accNames = append(spec.accNames, o.name)
	}
	return spec
}

func chanElem(t types.Type) types.Type { return t.Underlying().(*types.Chan).Elem() }

// doSend performs the send under exec on object o; returns the panic condition.
func (w *W) doSend(exec *Term, o *Object, v Value, elem types.Type) *Term {
	closed := w.chClosed(o)
	pc := And(exec, closed)
	ok := And(exec, Not(closed))
	n := w.chLen(o)
	for k := 0; k < o.cap; k++ {
		kg := And(ok, Eq(n, BV(64, uint64(k))))
		if kg.IsFalse() {
			continue
		}
		w.setCell(kg, o, fmt.Sprintf("buf[%d]", k), v, zero(elem))
	}
	w.setCell(ok, o, "len", Add(n, BV(64, 1)), BV(64, 0))
	return pc
}

// doRecv performs the receive under exec on object o; returns (value, ok).
func (w *W) doRecv(exec *Term, o *Object, elem types.Type) (Value, *Term) {
	switch o.kind {
	case "ticker":
		ticks := w.getCell(o, "ticks", BV(64, 0)).(*Term)
		w.setCell(exec, o, "ticks", Add(ticks, BV(64, 1)), BV(64, 0))
		return w.now(exec), True
	case "ctxdone":
		return zero(elem), False
	}
	n := w.chLen(o)
	has := Not(Eq(n, BV(64, 0)))
	var v Value = zero(elem)
	if o.cap > 0 {
		v = merge(has, w.getCell(o, "buf[0]", zero(elem)), zero(elem))
		tg := And(exec, has)
		if !tg.IsFalse() {
			for k := 0; k+1 < o.cap; k++ {
				w.setCell(tg, o, fmt.Sprintf("buf[%d]", k), w.getCell(o, fmt.Sprintf("buf[%d]", k+1), zero(elem)), zero(elem))
			}
			w.setCell(tg, o, fmt.Sprintf("buf[%d]", o.cap-1), zero(elem), zero(elem))
			w.setCell(tg, o, "len", Sub(n, BV(64, 1)), BV(64, 0))
		}
	}
	return v, has
}

func (w *W) chanSend(t *Thread, f *frame, x *ssa.Send, key int, g *Term) *Term {
	ch := w.val(f, x.Chan).(*Ptr)
	v := w.val(f, x.X)
	elem := chanElem(x.Chan.Type())
	en := False
	for _, a := range ch.alts {
		if a.l != nil {
			en = Or(en, And(a.g, w.sendReady(a.l.obj)))
		}
	}
	if w.access != nil {
		w.publish(v)
	}
	r, ng := w.op(t, key, g, chanSpec(opSpec{yield: true, sync: true, enabled: en, pos: x.Pos(), kind: "send"}, ch, true).with(func(exec *Term) Value {
		pc := False
		for _, a := range ch.alts {
			if a.l != nil {
				pc = Or(pc, w.doSend(And(exec, a.g), a.l.obj, v, elem))
			}
		}
		return pc
	}))
	if r != nil {
		ng = w.rtPanic(f, ng, r.(*Term), "send on closed channel", x.Pos())
	}
	return ng
}

func (w *W) chanRecv(t *Thread, f *frame, x *ssa.UnOp, key int, g *Term) *Term {
	ch := w.val(f, x.X).(*Ptr)
	elem := chanElem(x.X.Type())
	en := False
	for _, a := range ch.alts {
		if a.l != nil {
			en = Or(en, And(a.g, w.recvReady(a.l.obj)))
		}
	}
	onlyCtx := true
	for _, a := range ch.alts {
		if a.l != nil && a.l.obj.kind != "ctxdone" {
			onlyCtx = false
		}
	}
	r, ng := w.op(t, key, g, chanSpec(opSpec{yield: true, sync: true, enabled: en, pos: x.Pos(), kind: "recv"}, ch, !onlyCtx).with(func(exec *Term) Value {
		var v Value
		ok := False
		for _, a := range ch.alts {
			if a.l == nil {
				continue
			}
			av, aok := w.doRecv(And(exec, a.g), a.l.obj, elem)
			if v == nil {
				v = av
			} else {
				v = merge(a.g, av, v)
			}
			ok = Ite(a.g, aok, ok)
		}
		if v == nil {
			v = zero(elem)
		}
		return &Struct{[]Value{v, ok}}
	}))
	var s *Struct
	if r != nil {
		s = r.(*Struct)
	} else {
		s = &Struct{[]Value{zero(elem), False}}
	}
	if x.CommaOk {
		f.set(x, s, ng)
	} else {
		f.set(x, s.f[0], ng)
	}
	return ng
}

func (w *W) chanClose(f *frame, ch *Ptr, key int, g *Term, pos token.Pos) (Value, *Term) {
	r, ng := w.op(f.t, key, g, chanSpec(opSpec{yield: true, sync: true, pos: pos, kind: "close"}, ch, true).with(func(exec *Term) Value {
		pc := False
		for _, a := range ch.alts {
			if a.l == nil {
				pc = Or(pc, And(exec, a.g))
				continue
			}
			o := a.l.obj
			cl := w.chClosed(o)
			pc = Or(pc, And(exec, a.g, cl))
			w.setCell(And(exec, a.g), o, "closed", True, False)
		}
		return pc
	}))
	if r != nil {
		ng = w.rtPanic(f, ng, r.(*Term), "close of closed (or nil) channel", pos)
	}
	return nil, ng
}

func (w *W) selectInstr(t *Thread, f *frame, x *ssa.Select, key int, g *Term) *Term {
	type st struct {
		ch   *Ptr
		send Value
		dir  types.ChanDir
		elem types.Type
	}
	states := make([]st, len(x.States))
	for i, s := range x.States {
		states[i] = st{ch: w.val(f, s.Chan).(*Ptr), dir: s.Dir, elem: chanElem(s.Chan.Type())}
		if s.Send != nil {
			states[i].send = w.val(f, s.Send)
			if w.access != nil {
				w.publish(states[i].send)
			}
		}
	}
	ready := func(i int) *Term {
		r := False
		for _, a := range states[i].ch.alts {
			if a.l == nil {
				continue
			}
			if states[i].dir == types.SendOnly {
				r = Or(r, And(a.g, w.sendReady(a.l.obj)))
			} else {
				r = Or(r, And(a.g, w.recvReady(a.l.obj)))
			}
		}
		return r
	}
	anyReady := False
	for i := range states {
		anyReady = Or(anyReady, ready(i))
	}
	en := True
	if x.Blocking {
		en = anyReady
	}
	var choice *Term
	if len(states) > 1 {
		choice = Var(fmt.Sprintf("sel_t%d_k%d", t.id, key), 8)
	}
	sspec := opSpec{yield: true, sync: true, enabled: en, pos: x.Pos(), kind: "select"}
	for i := range states {
		sspec = chanSpec(sspec, states[i].ch, true)
	}
	r, ng := w.op(t, key, g, sspec.with(func(exec *Term) Value {
		idx := BV(64, ^uint64(0))
		recvOk := False
		pc := False
		var recvs []Value
		taken := False
		for i := range states {
			ri := ready(i)
			var ci *Term
			if choice != nil {
				ci = And(ri, Eq(choice, BV(8, uint64(i))))
			} else {
				ci = ri
			}
			ci = And(ci, Not(taken))
			taken = Or(taken, ci)
			eg := And(exec, ci)
			idx = Ite(ci, BV(64, uint64(i)), idx)
			if states[i].dir == types.SendOnly {
				for _, a := range states[i].ch.alts {
					if a.l != nil {
						pc = Or(pc, w.doSend(And(eg, a.g), a.l.obj, states[i].send, states[i].elem))
					}
				}
			} else {
				var v Value
				ok := False
				for _, a := range states[i].ch.alts {
					if a.l == nil {
						continue
					}
					av, aok := w.doRecv(And(eg, a.g), a.l.obj, states[i].elem)
					if v == nil {
						v = av
					} else {
						v = merge(a.g, av, v)
					}
					ok = Ite(a.g, aok, ok)
				}
				if v == nil {
					v = zero(states[i].elem)
				}
				recvOk = Ite(ci, ok, recvOk)
				recvs = append(recvs, v)
			}
		}
		if choice != nil {
			w.assumes = And(w.assumes, Implies(And(exec, anyReady), taken))
		}
		out := &Struct{[]Value{idx, recvOk}}
		out.f = append(out.f, recvs...)
		out.f = append(out.f, pc)
		return out
	}))
	if r == nil {
		r = zero(x.Type())
		f.set(x, r, ng)
		return ng
	}
	s := r.(*Struct)
	pc := s.f[len(s.f)-1].(*Term)
	ng = w.rtPanic(f, ng, pc, "send on closed channel (select)", x.Pos())
	f.set(x, &Struct{s.f[:len(s.f)-1]}, ng)
	return ng
}
