package main

import (
	"encoding/json"
	"fmt"
	"go/ast"
	"go/token"
	"go/types"
	"os"
	"path/filepath"
	"sort"
	"strings"

	"golang.org/x/tools/go/packages"
)

// Instrumentation for replay: every synchronisation operation of the repository (and of the harness)
// is preceded by a call into the replay controller (package vsched, overlay-only), which releases
// one goroutine at a time in the order of the counterexample and checks the program point.
// Line numbers are preserved (all edits stay within their line).

const vschedPath = "github.com/goptics/varmq/internal/zzverif/vsched"

var racyFields = map[string]bool{}
var racyPoints []string

type edit struct {
	off   int
	text  string
	del   int
	order int
}

type instrumenter struct {
	fset  *token.FileSet
	info  *types.Info
	src   []byte
	edits []edit
	file  *token.File
	fname string
	errs  []string
	n     int
}

func (in *instrumenter) posStr(p token.Pos) string {
	ps := in.fset.Position(p)
	fn := ps.Filename
	if strings.HasPrefix(fn, "/repo/") {
		fn = fn[6:]
	}
	return fmt.Sprintf("%s:%d", fn, ps.Line)
}

func (in *instrumenter) ins(p token.Pos, text string) {
	in.n++
	in.edits = append(in.edits, edit{off: in.file.Offset(p), text: text, order: in.n})
}
func (in *instrumenter) repl(from, to token.Pos, text string) {
	in.n++
	in.edits = append(in.edits, edit{off: in.file.Offset(from), del: in.file.Offset(to) - in.file.Offset(from), text: text, order: in.n})
}
func (in *instrumenter) text(n ast.Node) string {
	return string(in.src[in.file.Offset(n.Pos()):in.file.Offset(n.End())])
}

// syncKind maps a called function to the operation kind used in the model's trace ("" = not a sync op).
func syncKind(fn *types.Func) string {
	full := fn.FullName()
	switch {
	case strings.HasPrefix(full, "(*sync/atomic."):
		m := fn.Name()
		if strings.Contains(full, "atomic.Value)") {
			return "atomic.Value"
		}
		switch m {
		case "Load", "Store", "Add", "Swap":
			return "atomic." + m
		case "CompareAndSwap":
			return "atomic.CAS"
		}
	case full == "(*sync.Mutex).Lock", full == "(*sync.RWMutex).Lock":
		return "Lock"
	case full == "(*sync.Mutex).Unlock", full == "(*sync.RWMutex).Unlock":
		return "Unlock"
	case full == "(*sync.RWMutex).RLock":
		return "RLock"
	case full == "(*sync.RWMutex).RUnlock":
		return "RUnlock"
	case full == "(*sync.Mutex).TryLock", full == "(*sync.RWMutex).TryLock":
		return "TryLock"
	case full == "(*sync.WaitGroup).Add":
		return "WaitGroup.Add"
	case full == "(*sync.WaitGroup).Done":
		return "WaitGroup.Done"
	case full == "(*sync.WaitGroup).Wait":
		return "WaitGroup.Wait"
	case full == "(*sync.Cond).Broadcast":
		return "Cond.Broadcast"
	case full == "(*sync.Cond).Signal":
		return "Cond.Signal"
	case full == "(*sync.Cond).Wait":
		return "Cond.Wait"
	case full == "(*sync.Once).Do":
		return "Once.Do"
	case full == "(*time.Ticker).Stop":
		return "Ticker.Stop"
	case full == "(context.Context).Err":
		return "ctx.Err"
	}
	return ""
}

func (in *instrumenter) calleeFunc(c *ast.CallExpr) *types.Func {
	var id *ast.Ident
	switch f := ast.Unparen(c.Fun).(type) {
	case *ast.SelectorExpr:
		id = f.Sel
	case *ast.Ident:
		id = f
	default:
		return nil
	}
	if fn, ok := in.info.Uses[id].(*types.Func); ok {
		return fn
	}
	return nil
}

func isChan(t types.Type) bool {
	if t == nil {
		return false
	}
	_, ok := t.Underlying().(*types.Chan)
	return ok
}

func (in *instrumenter) isCancelCall(c *ast.CallExpr) bool {
	tv, ok := in.info.Types[c.Fun]
	if !ok || tv.Type == nil {
		return false
	}
	return isNamed(tv.Type, "context", "CancelFunc")
}

func (in *instrumenter) isBuiltin(c *ast.CallExpr, name string) bool {
	id, ok := ast.Unparen(c.Fun).(*ast.Ident)
	if !ok || id.Name != name {
		return false
	}
	_, isB := in.info.Uses[id].(*types.Builtin)
	return isB
}

// wrapCall rewrites X.M(args) into vsched.CallN/DoN(pos, kind, X.M, args)
func (in *instrumenter) wrapCall(c *ast.CallExpr, kind string) {
	sig, _ := in.info.Types[c.Fun].Type.Underlying().(*types.Signature)
	if sig == nil {
		in.errs = append(in.errs, "no signature for "+in.text(c))
		return
	}
	name := "Do"
	if sig.Results().Len() == 1 {
		name = "Call"
	} else if sig.Results().Len() > 1 {
		in.errs = append(in.errs, "multi-result sync call "+in.text(c))
		return
	}
	name = fmt.Sprintf("vsched.%s%d", name, len(c.Args))
	if kind == "Cond.Wait" {
		// the condition variable is replaced by the controller's own park/wake protocol
		sel := ast.Unparen(c.Fun).(*ast.SelectorExpr)
		in.repl(c.Pos(), c.End(), fmt.Sprintf("vsched.CondWait(%q, %s)", in.posStr(c.Lparen), in.text(sel.X)))
		return
	}
	if sig.Results().Len() == 0 {
		// void: wrap the untouched call in a closure (no type inference involved)
		in.ins(c.Pos(), fmt.Sprintf("vsched.Do0(%q, %q, func() { ", in.posStr(c.Lparen), kind))
		in.ins(c.End(), " })")
		return
	}
	in.ins(c.Pos(), fmt.Sprintf("%s(%q, %q, ", name, in.posStr(c.Lparen), kind))
	// turn "(" into "," (or nothing when there are no arguments)
	if len(c.Args) == 0 {
		in.repl(c.Lparen, c.Lparen+1, "")
	} else {
		in.repl(c.Lparen, c.Lparen+1, ", ")
	}
}

type stmtCtx struct {
	list bool // statement sits directly in a block / case clause list, so statements can be inserted before it
}

func (in *instrumenter) stmts(list []ast.Stmt) {
	for _, s := range list {
		in.racyPoint(s)
		in.stmt(s, true)
	}
}

// racyPoint inserts a scheduling point before a simple statement that reads or writes a field the model
// found contended (so that a replay can park a goroutine right before the plain access).
func (in *instrumenter) racyPoint(s ast.Stmt) {
	if len(racyFields) == 0 {
		return
	}
	switch s.(type) {
	case *ast.AssignStmt, *ast.ExprStmt, *ast.ReturnStmt, *ast.IncDecStmt, *ast.IfStmt, *ast.ForStmt:
	default:
		return
	}
	isRacy := func(e ast.Expr) bool {
		if id, ok := e.(*ast.Ident); ok {
			// a contended local variable captured by closures: "name@file:line" of its declaration
			obj, _ := in.info.Uses[id].(*types.Var)
			if obj == nil {
				obj, _ = in.info.Defs[id].(*types.Var)
			}
			if obj == nil || obj.IsField() {
				return false
			}
			dp := in.fset.Position(obj.Pos())
			return racyFields[fmt.Sprintf("%s@%s:%d", obj.Name(), filepath.Base(dp.Filename), dp.Line)]
		}
		sel, ok := e.(*ast.SelectorExpr)
		if !ok {
			return false
		}
		selx, ok := in.info.Selections[sel]
		if !ok || selx.Kind() != types.FieldVal {
			return false
		}
		rt := selx.Recv()
		if p, ok := rt.Underlying().(*types.Pointer); ok {
			rt = p.Elem()
		}
		// the field may be promoted through embedded structs: use the field's own struct
		name := ""
		if n, ok := types.Unalias(rt).(*types.Named); ok {
			name = n.Obj().Name()
		}
		if racyFields[name+"."+sel.Sel.Name] {
			return true
		}
		// promoted: look for any Type.field with this field name whose type embeds...
		for k := range racyFields {
			if strings.HasSuffix(k, "."+sel.Sel.Name) && len(selx.Index()) > 1 {
				return true
			}
		}
		return false
	}
	var target ast.Node = s
	if ifs, ok := s.(*ast.IfStmt); ok {
		target = ifs.Cond
		if ifs.Init != nil {
			// `if x := f(a, b); cond`: the reads happen in the init statement and the condition
			target = &ast.BlockStmt{List: []ast.Stmt{ifs.Init, &ast.ExprStmt{X: ifs.Cond}}}
		}
	}
	if fs, ok := s.(*ast.ForStmt); ok {
		// the loop head (init and condition) reads a contended field: one point before the loop
		hit := false
		for _, n := range []ast.Node{fs.Init, fs.Cond} {
			if n == nil || n == ast.Node((*ast.AssignStmt)(nil)) || n == ast.Node(ast.Expr(nil)) {
				continue
			}
			ast.Inspect(n, func(m ast.Node) bool {
				if e, ok := m.(ast.Expr); ok && isRacy(e) {
					hit = true
				}
				return true
			})
		}
		if hit {
			in.ins(s.Pos(), in.point("load", s.Pos()))
			racyPoints = append(racyPoints, in.posStr(s.Pos())+" load")
		}
		return
	}
	store, load := false, false
	if as, ok := s.(*ast.AssignStmt); ok {
		for _, l := range as.Lhs {
			if isRacy(l) {
				store = true
				if _, isId := l.(*ast.Ident); isId {
					// x = f(...): the store follows the call, a point before the statement would come too early
					for _, r := range as.Rhs {
						ast.Inspect(r, func(n ast.Node) bool {
							if _, ok := n.(*ast.CallExpr); ok {
								store = false
							}
							return true
						})
					}
				}
			}
		}
		for _, r := range as.Rhs {
			ast.Inspect(r, func(n ast.Node) bool {
				if _, ok := n.(*ast.FuncLit); ok {
					return false
				}
				if e, ok := n.(ast.Expr); ok && isRacy(e) {
					load = true
				}
				return true
			})
		}
	} else if ids, ok := s.(*ast.IncDecStmt); ok {
		if isRacy(ids.X) {
			load, store = true, true
		}
	} else {
		ast.Inspect(target, func(n ast.Node) bool {
			if _, ok := n.(*ast.FuncLit); ok {
				return false
			}
			if e, ok := n.(ast.Expr); ok && isRacy(e) {
				load = true
			}
			return true
		})
	}
	if load {
		in.ins(s.Pos(), in.point("load", s.Pos()))
		racyPoints = append(racyPoints, in.posStr(s.Pos())+" load")
	}
	if store {
		in.ins(s.Pos(), in.point("store", s.Pos()))
		racyPoints = append(racyPoints, in.posStr(s.Pos())+" store")
	}
}

func (in *instrumenter) point(kind string, p token.Pos) string {
	return fmt.Sprintf("vsched.Point(%q, %q); ", in.posStr(p), kind)
}

func (in *instrumenter) stmt(s ast.Stmt, inList bool) {
	switch x := s.(type) {
	case nil:
	case *ast.BlockStmt:
		in.stmts(x.List)
	case *ast.ExprStmt:
		if u, ok := ast.Unparen(x.X).(*ast.UnaryExpr); ok && u.Op == token.ARROW {
			in.needList(inList, s)
			in.ins(s.Pos(), in.point("recv", u.OpPos))
			in.expr(u.X)
			return
		}
		if c, ok := x.X.(*ast.CallExpr); ok && in.isBuiltin(c, "close") {
			in.needList(inList, s)
			in.ins(s.Pos(), in.point("close", c.Lparen))
			return
		}
		in.expr(x.X)
	case *ast.SendStmt:
		in.needList(inList, s)
		in.ins(s.Pos(), in.point("send", x.Arrow))
		in.expr(x.Chan)
		in.expr(x.Value)
	case *ast.AssignStmt:
		if len(x.Rhs) == 1 {
			if u, ok := ast.Unparen(x.Rhs[0]).(*ast.UnaryExpr); ok && u.Op == token.ARROW {
				in.needList(inList, s)
				in.ins(s.Pos(), in.point("recv", u.OpPos))
				in.expr(u.X)
				for _, l := range x.Lhs {
					in.expr(l)
				}
				return
			}
		}
		for _, e := range x.Lhs {
			in.expr(e)
		}
		for _, e := range x.Rhs {
			in.expr(e)
		}
	case *ast.GoStmt:
		in.needList(inList, s)
		in.goStmt(x)
	case *ast.DeferStmt:
		c := x.Call
		if fn := in.calleeFunc(c); fn != nil {
			if k := syncKind(fn); k != "" {
				in.wrapCall(c, k)
				for _, a := range c.Args {
					in.expr(a)
				}
				return
			}
		}
		if in.isCancelCall(c) {
			in.ins(c.Pos(), fmt.Sprintf("vsched.Do0(%q, %q, ", in.posStr(x.Defer), "cancel()"))
			in.repl(c.Lparen, c.Lparen+1, "")
			return
		}
		if in.isBuiltin(c, "close") {
			in.errs = append(in.errs, "deferred close at "+in.posStr(c.Pos()))
			return
		}
		in.expr(c.Fun)
		for _, a := range c.Args {
			in.expr(a)
		}
	case *ast.ReturnStmt:
		for _, e := range x.Results {
			in.expr(e)
		}
	case *ast.IfStmt:
		in.stmt(x.Init, false)
		in.expr(x.Cond)
		in.stmt(x.Body, false)
		in.stmt(x.Else, false)
	case *ast.ForStmt:
		in.stmt(x.Init, false)
		if x.Cond != nil {
			in.expr(x.Cond)
		}
		in.stmt(x.Post, false)
		in.stmt(x.Body, false)
	case *ast.RangeStmt:
		if tv, ok := in.info.Types[x.X]; ok && isChan(tv.Type) {
			in.needList(inList, s)
			in.rangeChan(x)
			return
		}
		in.expr(x.X)
		in.stmt(x.Body, false)
	case *ast.SwitchStmt:
		in.stmt(x.Init, false)
		if x.Tag != nil {
			in.expr(x.Tag)
		}
		in.stmt(x.Body, false)
	case *ast.TypeSwitchStmt:
		in.stmt(x.Init, false)
		in.stmt(x.Assign, false)
		in.stmt(x.Body, false)
	case *ast.CaseClause:
		for _, e := range x.List {
			in.expr(e)
		}
		in.stmts(x.Body)
	case *ast.SelectStmt:
		in.needList(inList, s)
		in.ins(s.Pos(), in.point("select", x.Select))
		for _, cc := range x.Body.List {
			in.stmts(cc.(*ast.CommClause).Body)
		}
	case *ast.LabeledStmt:
		in.stmt(x.Stmt, false)
	case *ast.DeclStmt:
		if gd, ok := x.Decl.(*ast.GenDecl); ok {
			for _, sp := range gd.Specs {
				if vs, ok := sp.(*ast.ValueSpec); ok {
					for _, v := range vs.Values {
						in.expr(v)
					}
				}
			}
		}
	case *ast.IncDecStmt:
		in.expr(x.X)
	case *ast.BranchStmt, *ast.EmptyStmt:
	default:
		in.errs = append(in.errs, fmt.Sprintf("statement %T at %s", s, in.posStr(s.Pos())))
	}
}

func (in *instrumenter) needList(inList bool, s ast.Stmt) {
	if !inList {
		in.errs = append(in.errs, "synchronisation statement in init/post position at "+in.posStr(s.Pos()))
	}
}

func (in *instrumenter) expr(e ast.Expr) {
	ast.Inspect(e, func(n ast.Node) bool {
		switch x := n.(type) {
		case *ast.FuncLit:
			in.stmts(x.Body.List)
			return false
		case *ast.UnaryExpr:
			if x.Op == token.ARROW {
				in.errs = append(in.errs, "receive in expression position at "+in.posStr(x.Pos()))
			}
		case *ast.CallExpr:
			if fn := in.calleeFunc(x); fn != nil {
				if k := syncKind(fn); k != "" {
					in.wrapCall(x, k)
				}
			} else if in.isCancelCall(x) {
				in.ins(x.Pos(), fmt.Sprintf("vsched.Do0(%q, %q, ", in.posStr(x.Lparen), "cancel()"))
				in.repl(x.Lparen, x.Lparen+1, "")
			}
			if in.isBuiltin(x, "close") {
				in.errs = append(in.errs, "close in expression position at "+in.posStr(x.Pos()))
			}
			if in.isBuiltin(x, "len") && len(x.Args) == 1 {
				if tv, ok := in.info.Types[x.Args[0]]; ok && isChan(tv.Type) {
					in.errs = append(in.errs, "len(chan) at "+in.posStr(x.Pos()))
				}
			}
		}
		return true
	})
}

// go F(a1..an)  =>  { vsched.Point(pos,"go"); __t := vsched.Spawn(pos); __f := F; __a1 := a1; go func() { vsched.Enter(__t); defer vsched.Exit(__t); __f(__a1..) }() }
// (function and arguments stay in place so that their own synchronisation operations are instrumented too)
func (in *instrumenter) goStmt(x *ast.GoStmt) {
	c := x.Call
	pos := in.posStr(x.Go)
	in.n++
	id := in.n
	in.repl(x.Go, c.Fun.Pos(), fmt.Sprintf("{ vsched.Point(%q, \"go\"); __t%d := vsched.Spawn(%q); __f%d := ", pos, id, pos, id))
	in.expr(c.Fun)
	var names []string
	for i := range c.Args {
		names = append(names, fmt.Sprintf("__a%d_%d", id, i))
	}
	ell := ""
	if c.Ellipsis.IsValid() {
		ell = "..."
	}
	tail := fmt.Sprintf("; go func() { vsched.Enter(__t%d); defer vsched.Exit(__t%d); __f%d(%s%s) }() }", id, id, id, strings.Join(names, ", "), ell)
	if len(c.Args) == 0 {
		in.repl(c.Lparen, c.Rparen+1, tail)
		return
	}
	in.repl(c.Lparen, c.Args[0].Pos(), fmt.Sprintf("; %s := ", names[0]))
	for i, a := range c.Args {
		in.expr(a)
		if i+1 < len(c.Args) {
			in.repl(a.End(), c.Args[i+1].Pos(), fmt.Sprintf("; %s := ", names[i+1]))
		}
	}
	in.repl(c.Args[len(c.Args)-1].End(), c.Rparen+1, tail)
}

// for k := range ch { body }  =>  { __c := ch; for { vsched.Point(pos,"recv"); k, __ok := <-__c; if !__ok { break }; body } }
func (in *instrumenter) rangeChan(x *ast.RangeStmt) {
	in.n++
	id := in.n
	pos := in.posStr(x.For)
	lhs := "_"
	asg := ":="
	if x.Key != nil {
		lhs = in.text(x.Key)
		if x.Tok == token.ASSIGN {
			asg = "="
		}
	}
	var head string
	pt := "Point"
	if tv, ok := in.info.Types[x.X]; ok {
		if ch, ok := tv.Type.Underlying().(*types.Chan); ok && ch.Elem().String() == "time.Time" {
			// a ticker's channel: the model delivers at most K ticks, all of them events of the trace; the native
			// ticker would go on ticking in the free run and change the state the final predicates look at
			pt = "TickPoint"
		}
	}
	if x.Key != nil && x.Tok == token.ASSIGN {
		head = fmt.Sprintf("{ __c%d := %s; for { vsched.%s(%q, \"recv\"); var __ok%d bool; %s, __ok%d = <-__c%d; if !__ok%d { break }; ", id, in.text(x.X), pt, pos, id, lhs, id, id, id)
	} else {
		head = fmt.Sprintf("{ __c%d := %s; for { vsched.%s(%q, \"recv\"); %s, __ok%d %s <-__c%d; if !__ok%d { break }; ", id, in.text(x.X), pt, pos, lhs, id, asg, id, id)
	}
	in.repl(x.For, x.Body.Lbrace+1, head)
	in.stmts(x.Body.List)
	in.ins(x.Body.Rbrace+1, " }")
}

func (in *instrumenter) apply() []byte {
	sort.SliceStable(in.edits, func(i, j int) bool {
		if in.edits[i].off != in.edits[j].off {
			return in.edits[i].off < in.edits[j].off
		}
		return in.edits[i].order < in.edits[j].order
	})
	var out []byte
	cur := 0
	for _, e := range in.edits {
		if e.off < cur {
			in.errs = append(in.errs, fmt.Sprintf("overlapping edits at offset %d in %s", e.off, in.fname))
			continue
		}
		out = append(out, in.src[cur:e.off]...)
		out = append(out, e.text...)
		cur = e.off + e.del
	}
	out = append(out, in.src[cur:]...)
	return out
}

// instrumentRepo writes instrumented copies of all non-test files of the module's packages (and the
// harness overlay files) to outDir and returns the overlay map virtual -> real.
func instrumentRepo(repo, pkgDir, overlayDir, outDir string) (map[string]string, error) {
	os.Setenv("PATH", "/opt/veriftools/go1.26.8/bin:"+os.Getenv("PATH"))
	os.Setenv("GOTOOLCHAIN", "local")
	os.Setenv("GOFLAGS", "-mod=mod")
	os.Setenv("GOPROXY", "off")
	overlay := map[string][]byte{}
	ents, err := os.ReadDir(overlayDir)
	if err != nil {
		return nil, err
	}
	for _, e := range ents {
		n := e.Name()
		if !strings.HasSuffix(n, ".go") || strings.HasSuffix(n, "_replay.go") || strings.HasSuffix(n, "_test.go") {
			continue
		}
		src, _ := os.ReadFile(filepath.Join(overlayDir, n))
		overlay[filepath.Join(repo, pkgDir, "zz_verif_"+n)] = src
	}
	cfg := &packages.Config{Mode: packages.LoadAllSyntax, Dir: repo, Overlay: overlay}
	pkgs, err := packages.Load(cfg, "./"+pkgDir)
	if err != nil {
		return nil, err
	}
	res := map[string]string{}
	var errs []string
	os.MkdirAll(outDir, 0755)
	seen := map[string]bool{}
	packages.Visit(pkgs, nil, func(p *packages.Package) {
		if !strings.HasPrefix(p.PkgPath, repoModule) || seen[p.PkgPath] {
			return
		}
		seen[p.PkgPath] = true
		for i, f := range p.Syntax {
			fname := p.CompiledGoFiles[i]
			base := filepath.Base(fname)
			if base == "zz_verif_vapi.go" {
				continue // replaced by the native API file
			}
			src, ok := overlay[fname]
			if !ok {
				src, err = os.ReadFile(fname)
				if err != nil {
					errs = append(errs, err.Error())
					continue
				}
			}
			in := &instrumenter{fset: p.Fset, info: p.TypesInfo, src: src, file: p.Fset.File(f.Pos()), fname: fname}
			for _, d := range f.Decls {
				if fd, ok := d.(*ast.FuncDecl); ok && fd.Body != nil {
					in.stmts(fd.Body.List)
				}
				if gd, ok := d.(*ast.GenDecl); ok {
					for _, sp := range gd.Specs {
						if vs, ok := sp.(*ast.ValueSpec); ok {
							for _, v := range vs.Values {
								in.expr(v)
							}
						}
					}
				}
			}
			if len(in.edits) == 0 {
				if _, isOv := overlay[fname]; !isOv {
					continue
				}
			}
			// import the controller: right after the package clause, on the same line
			if len(in.edits) > 0 {
				in.n = -1
				in.edits = append(in.edits, edit{off: in.file.Offset(f.Name.End()), text: "; import vsched \"" + vschedPath + "\"", order: -1})
			}
			out := in.apply()
			errs = append(errs, in.errs...)
			rel, _ := filepath.Rel(repo, fname)
			dst := filepath.Join(outDir, strings.ReplaceAll(rel, "/", "__"))
			os.WriteFile(dst, out, 0644)
			res[fname] = dst
		}
	})
	if len(errs) > 0 {
		return res, fmt.Errorf("instrumentation: %s", strings.Join(errs, "; "))
	}
	return res, nil
}

func instrumentMain(repo, pkgDir, overlayDir, outDir string) {
	m, err := instrumentRepo(repo, pkgDir, overlayDir, outDir)
	if err != nil {
		fmt.Fprintln(os.Stderr, err)
		if m == nil {
			os.Exit(2)
		}
	}
	b, _ := json.MarshalIndent(m, "", " ")
	os.WriteFile(filepath.Join(outDir, "files.json"), b, 0644)
	os.WriteFile(filepath.Join(outDir, "points.txt"), []byte(strings.Join(racyPoints, "\n")), 0644)
	if err != nil {
		os.Exit(3)
	}
}
