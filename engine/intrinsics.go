package main

import (
	"fmt"
	"go/constant"
	"go/token"
	"go/types"
	"sort"
	"strings"

	"golang.org/x/tools/go/ssa"
)

const writerLocked = 0xFFFFFFFF

func leafType(w int) types.Type {
	switch w {
	case 0:
		return types.Typ[types.Bool]
	case 32:
		return types.Typ[types.Uint32]
	}
	return types.Typ[types.Uint64]
}

// cellOp: one atomic step on a scalar sync cell reached through p.
// fx returns (new cell value or nil, result or nil, panic condition or nil).
func (w *W) cellOp(f *frame, key int, g *Term, p *Ptr, wd int, kind string, pos token.Pos, enabled func(cur *Term) *Term, fx func(e, cur *Term) (*Term, Value, *Term)) (Value, *Term) {
	g = w.rtPanic(f, g, p.isNil(), "nil pointer dereference", pos)
	lt := leafType(wd)
	if w.allLocal(p, f.t) {
		// a sync object that never escapes its goroutine: plain local computation
		var res Value
		for _, a := range p.alts {
			if a.l == nil {
				continue
			}
			cur := w.load(a.l, lt).(*Term)
			eg := And(g, a.g)
			nv, r, pcc := fx(eg, cur)
			if nv != nil {
				a.l.obj.cells[a.l.path] = Ite(eg, nv, cur)
			}
			if pcc != nil {
				g = w.rtPanic(f, g, And(a.g, pcc), kind+" misuse", pos)
			}
			if r != nil {
				if res == nil {
					res = r
				} else {
					res = merge(a.g, r, res)
				}
			}
		}
		return res, g
	}
	isLoad := strings.HasSuffix(kind, ".Load")
	if isLoad && w.frozenPtr(p, lt) {
		// never written while other goroutines exist: reading it commutes with everything
		var res Value
		for _, a := range p.alts {
			if a.l == nil {
				continue
			}
			cur := w.load(a.l, lt).(*Term)
			if res == nil {
				res = cur
			} else {
				res = merge(a.g, cur, res)
			}
		}
		// keep the step in the trace (the replay passes this program point), but it is neither a
		// scheduling point nor does it carry state
		w.op(f.t, key, g, opSpec{pos: pos, kind: kind, traced: true, effect: func(exec *Term) Value { return nil }})
		return res, g
	}
	var en *Term
	if enabled != nil {
		en = False
		for _, a := range p.alts {
			if a.l != nil {
				en = Or(en, And(a.g, enabled(w.load(a.l, lt).(*Term))))
			}
		}
	}
	spec := opSpec{yield: true, sync: true, enabled: en, pos: pos, kind: kind, syncCell: true, write: !isLoad, label: w.curLabel}
	switch kind {
	case "Unlock", "RUnlock":
		// a release commutes to the left of anything another goroutine can do while the lock is held:
		// pre-empting just before it yields no behaviour that pre-empting just after it does not
		spec.yield = false
	}
	if kind == "RLock" || kind == "RUnlock" {
		spec.write = false // readers commute with each other; they conflict only with Lock/Unlock
	}
	for _, a := range p.alts {
		if a.l != nil {
			spec.accCells = append(spec.accCells, a.l.obj.key+"|"+a.l.path)
			spec.accNames = append(spec.accNames, a.l.obj.name+a.l.path)
		}
	}
	spec.effect = func(exec *Term) Value {
		var res Value
		pc := False
		for _, a := range p.alts {
			if a.l == nil {
				continue
			}
			cur := w.load(a.l, lt).(*Term)
			eg := And(exec, a.g)
			nv, r, pcc := fx(eg, cur)
			if nv != nil {
				a.l.obj.cells[a.l.path] = Ite(eg, nv, cur)
			}
			if pcc != nil {
				pc = Or(pc, And(eg, pcc))
			}
			if r != nil {
				if res == nil {
					res = r
				} else {
					res = merge(a.g, r, res)
				}
			}
		}
		return &Struct{[]Value{res, pc}}
	}
	r, ng := w.op(f.t, key, g, spec)
	if r == nil {
		return nil, ng
	}
	s := r.(*Struct)
	if pc := s.f[1].(*Term); !pc.IsFalse() {
		ng = w.rtPanic(f, ng, pc, kind+" misuse", pos)
	}
	return s.f[0], ng
}

func constString(v ssa.Value) (string, bool) {
	if c, ok := v.(*ssa.Const); ok && c.Value != nil && c.Value.Kind() == constant.String {
		return constant.StringVal(c.Value), true
	}
	return "", false
}

func (w *W) errType() types.Type {
	p := w.prog.ImportedPackage("errors")
	if p == nil {
		if synthErr == nil {
			pk := types.NewPackage("verif/synth", "synth")
			st := types.NewStruct([]*types.Var{types.NewField(token.NoPos, pk, "s", types.Typ[types.String], false)}, nil)
			synthErr = types.NewPointer(types.NewNamed(types.NewTypeName(token.NoPos, pk, "errorString", nil), st, nil))
		}
		return synthErr
	}
	return types.NewPointer(p.Pkg.Scope().Lookup("errorString").Type())
}

func (w *W) errObj(name string) *Object {
	o, fresh := w.newObj("E:"+name, w.errType().(*types.Pointer).Elem(), false)
	if fresh {
		o.kind = "err"
		o.name = name
		o.cells[".0"] = strConst(name)
	}
	return o
}

var errWraps = map[*Object][]Value{}
var synthErr types.Type

func (w *W) errIs(e Value, target Value, depth int) *Term {
	ei, ok := e.(*Iface)
	if !ok || depth > 4 {
		return False
	}
	r := valueEq(ei, target)
	for _, a := range ei.alts {
		if a.typ == nil {
			continue
		}
		if p, ok := a.val.(*Ptr); ok {
			for _, pa := range p.alts {
				if pa.l == nil {
					continue
				}
				for _, wv := range errWraps[pa.l.obj] {
					r = Or(r, And(a.g, pa.g, w.errIs(wv, target, depth+1)))
				}
			}
		}
	}
	return r
}

// flat32 reduces a value to a 32-bit term for use as an uninterpreted-function argument.
func flat32(v Value) *Term {
	switch x := v.(type) {
	case *Term:
		if x.w == 0 {
			return Ite(x, BV(32, 1), BV(32, 0))
		}
		if x.w > 32 {
			return Extract(x, 32)
		}
		return Zext(x, 32)
	case *Ptr:
		r := BV(32, 0)
		for _, a := range x.alts {
			if a.l != nil {
				r = Ite(a.g, BV(32, uint64(a.l.obj.id)), r)
			}
		}
		return r
	case *Iface:
		r := BV(32, 0)
		for _, a := range x.alts {
			if a.typ != nil {
				r = Ite(a.g, flat32(a.val), r)
			}
		}
		return r
	}
	return BV(32, 0)
}

func (w *W) sliceElems(s *Slice, elem types.Type) []Value {
	n, ok := maxConst(s.len)
	if !ok {
		panic("cannot encode: variadic slice of symbolic length")
	}
	out := make([]Value, n)
	for i := range out {
		out[i], _ = w.loadPtr(w.elemPtr(s.arr, Add(s.off, BV(64, uint64(i))), 0), elem)
	}
	return out
}

var anyType = types.NewInterfaceType(nil, nil)

func (w *W) errIfaceType() types.Type { return types.Universe.Lookup("error").Type() }

func (w *W) now(exec *Term) *Term {
	w.clockN++
	c := Var(fmt.Sprintf("clk_%d", w.clockN), 64)
	w.assumes = And(w.assumes, Implies(exec, And(Not(Ult(c, w.clock)), Ult(c, BV(64, 1<<40)))))
	w.clock = Ite(exec, c, w.clock)
	return c
}

func (w *W) nondetName(f *frame, key int, kind string) string {
	return fmt.Sprintf("nd_%s_t%d_k%d", kind, f.t.id, key)
}

func (w *W) bytesOfString(s *Term) Value {
	o, fresh := w.newObj(fmt.Sprintf("B:str:%d", s.id), types.Typ[types.Uint8], false)
	if fresh {
		o.kind = "blob"
		o.cells["valid"] = False
		o.cells["str"] = s
		o.n = 1
	}
	return &Slice{onePtr(mkLoc(o, "")), BV(64, 0), BV(64, 1), BV(64, 1)}
}

func (w *W) stringOfBytes(s *Slice) Value {
	var r *Term = BV(32, 0)
	for _, a := range s.arr.alts {
		if a.l != nil {
			if sv, ok := a.l.obj.cells["str"].(*Term); ok {
				r = Ite(a.g, sv, r)
			} else {
				r = Ite(a.g, BV(32, uint64(0x70000000+a.l.obj.id)), r)
			}
		}
	}
	return r
}

// intrinsic handles calls to modelled library functions. Returns (result, out guard, handled).
func (w *W) intrinsic(f *frame, fn *ssa.Function, args []Value, key int, g *Term, pos token.Pos, c *ssa.CallCommon) (Value, *Term, bool) {
	name := fn.String()
	t := f.t
	if fn.Blocks == nil || strings.HasPrefix(fn.Name(), "v") {
		if r, ng, ok := w.harnessAPI(f, fn, args, key, g, pos, c); ok {
			return r, ng, true
		}
	}
	if fn.Pkg != nil && fn.Pkg.Pkg.Name() != "" {
		pp := fn.Pkg.Pkg.Path()
		if strings.HasPrefix(pp, repoModule) {
			return nil, g, false
		}
		if fn.Name() == "init" && fn.Signature.Recv() == nil {
			return nil, g, true // initialisers of dependency packages are not run
		}
	}
	var r Value
	used := true
	defer func() {
		if used {
			w.intrUsed[name] = true
		}
	}()
	ptr := func(i int) *Ptr { return args[i].(*Ptr) }
	term := func(i int) *Term { return args[i].(*Term) }
	w.curLabel = ""
	if c != nil && len(c.Args) > 0 {
		if fa, ok := c.Args[0].(*ssa.FieldAddr); ok {
			if st, ok := fa.X.Type().Underlying().(*types.Pointer).Elem().Underlying().(*types.Struct); ok {
				w.curLabel = st.Field(fa.Field).Name()
			}
		}
	}
	switch name {
	// ---- atomics
	case "(*sync/atomic.Uint32).Load", "(*sync/atomic.Int32).Load":
		r, g = w.cellOp(f, key, g, ptr(0), 32, "atomic.Load", pos, nil, func(e, cur *Term) (*Term, Value, *Term) { return nil, cur, nil })
	case "(*sync/atomic.Uint64).Load", "(*sync/atomic.Int64).Load":
		r, g = w.cellOp(f, key, g, ptr(0), 64, "atomic.Load", pos, nil, func(e, cur *Term) (*Term, Value, *Term) { return nil, cur, nil })
	case "(*sync/atomic.Bool).Load":
		r, g = w.cellOp(f, key, g, ptr(0), 0, "atomic.Load", pos, nil, func(e, cur *Term) (*Term, Value, *Term) { return nil, cur, nil })
	case "(*sync/atomic.Uint32).Store", "(*sync/atomic.Int32).Store":
		v := term(1)
		_, g = w.cellOp(f, key, g, ptr(0), 32, "atomic.Store", pos, nil, func(e, cur *Term) (*Term, Value, *Term) { return v, nil, nil })
	case "(*sync/atomic.Uint64).Store", "(*sync/atomic.Int64).Store":
		v := term(1)
		_, g = w.cellOp(f, key, g, ptr(0), 64, "atomic.Store", pos, nil, func(e, cur *Term) (*Term, Value, *Term) { return v, nil, nil })
	case "(*sync/atomic.Bool).Store":
		v := term(1)
		_, g = w.cellOp(f, key, g, ptr(0), 0, "atomic.Store", pos, nil, func(e, cur *Term) (*Term, Value, *Term) { return v, nil, nil })
	case "(*sync/atomic.Uint32).Add", "(*sync/atomic.Int32).Add":
		v := term(1)
		r, g = w.cellOp(f, key, g, ptr(0), 32, "atomic.Add", pos, nil, func(e, cur *Term) (*Term, Value, *Term) { n := Add(cur, v); return n, n, nil })
	case "(*sync/atomic.Uint64).Add", "(*sync/atomic.Int64).Add":
		v := term(1)
		r, g = w.cellOp(f, key, g, ptr(0), 64, "atomic.Add", pos, nil, func(e, cur *Term) (*Term, Value, *Term) { n := Add(cur, v); return n, n, nil })
	case "(*sync/atomic.Uint32).Swap", "(*sync/atomic.Int32).Swap":
		v := term(1)
		r, g = w.cellOp(f, key, g, ptr(0), 32, "atomic.Swap", pos, nil, func(e, cur *Term) (*Term, Value, *Term) { return v, cur, nil })
	case "(*sync/atomic.Uint64).Swap", "(*sync/atomic.Int64).Swap":
		v := term(1)
		r, g = w.cellOp(f, key, g, ptr(0), 64, "atomic.Swap", pos, nil, func(e, cur *Term) (*Term, Value, *Term) { return v, cur, nil })
	case "(*sync/atomic.Bool).Swap":
		v := term(1)
		r, g = w.cellOp(f, key, g, ptr(0), 0, "atomic.Swap", pos, nil, func(e, cur *Term) (*Term, Value, *Term) { return v, cur, nil })
	case "(*sync/atomic.Uint32).CompareAndSwap", "(*sync/atomic.Int32).CompareAndSwap":
		o, n := term(1), term(2)
		r, g = w.cellOp(f, key, g, ptr(0), 32, "atomic.CAS", pos, nil, func(e, cur *Term) (*Term, Value, *Term) { ok := Eq(cur, o); return Ite(ok, n, cur), ok, nil })
	case "(*sync/atomic.Uint64).CompareAndSwap", "(*sync/atomic.Int64).CompareAndSwap":
		o, n := term(1), term(2)
		r, g = w.cellOp(f, key, g, ptr(0), 64, "atomic.CAS", pos, nil, func(e, cur *Term) (*Term, Value, *Term) { ok := Eq(cur, o); return Ite(ok, n, cur), ok, nil })
	case "(*sync/atomic.Bool).CompareAndSwap":
		o, n := term(1), term(2)
		r, g = w.cellOp(f, key, g, ptr(0), 0, "atomic.CAS", pos, nil, func(e, cur *Term) (*Term, Value, *Term) { ok := Eq(cur, o); return Ite(ok, n, cur), ok, nil })
	case "(*sync/atomic.Value).Load", "(*sync/atomic.Value).Store":
		p := ptr(0)
		g = w.rtPanic(f, g, p.isNil(), "nil pointer dereference", pos)
		store := strings.HasSuffix(name, "Store")
		if store && w.access != nil {
			w.publish(args[1])
		}
		r, g = w.op(t, key, g, opSpec{yield: true, sync: true, pos: pos, kind: "atomic.Value", effect: func(exec *Term) Value {
			var out Value = nilIface()
			for _, a := range p.alts {
				if a.l == nil {
					continue
				}
				if store {
					w.setCell(And(exec, a.g), a.l.obj, a.l.path, args[1], nilIface())
				} else {
					out = merge(a.g, w.getCell(a.l.obj, a.l.path, nilIface()), out)
				}
			}
			return out
		}})
		if r == nil {
			r = nilIface()
		}
	// ---- mutexes
	case "(*sync.RWMutex).Lock", "(*sync.Mutex).Lock":
		w.trackLock(t, ptr(0), 'w')
		_, g = w.cellOp(f, key, g, ptr(0), 32, "Lock", pos, func(cur *Term) *Term { return Eq(cur, BV(32, 0)) }, func(e, cur *Term) (*Term, Value, *Term) { return BV(32, writerLocked), nil, nil })
	case "(*sync.RWMutex).TryLock", "(*sync.Mutex).TryLock":
		r, g = w.cellOp(f, key, g, ptr(0), 32, "TryLock", pos, nil, func(e, cur *Term) (*Term, Value, *Term) {
			ok := Eq(cur, BV(32, 0))
			return Ite(ok, BV(32, writerLocked), cur), ok, nil
		})
	case "(*sync.RWMutex).Unlock", "(*sync.Mutex).Unlock":
		w.trackLock(t, ptr(0), 0)
		_, g = w.cellOp(f, key, g, ptr(0), 32, "Unlock", pos, nil, func(e, cur *Term) (*Term, Value, *Term) {
			return BV(32, 0), nil, Not(Eq(cur, BV(32, writerLocked)))
		})
	case "(*sync.RWMutex).RLock":
		w.trackLock(t, ptr(0), 'r')
		_, g = w.cellOp(f, key, g, ptr(0), 32, "RLock", pos, func(cur *Term) *Term { return Not(Eq(cur, BV(32, writerLocked))) }, func(e, cur *Term) (*Term, Value, *Term) { return Add(cur, BV(32, 1)), nil, nil })
	case "(*sync.RWMutex).RUnlock":
		w.trackLock(t, ptr(0), 0)
		_, g = w.cellOp(f, key, g, ptr(0), 32, "RUnlock", pos, nil, func(e, cur *Term) (*Term, Value, *Term) {
			return Sub(cur, BV(32, 1)), nil, Or(Eq(cur, BV(32, 0)), Eq(cur, BV(32, writerLocked)))
		})
	// ---- wait groups
	case "(*sync.WaitGroup).Add":
		v := Extract(term(1), 32)
		_, g = w.cellOp(f, key, g, ptr(0), 32, "WaitGroup.Add", pos, nil, func(e, cur *Term) (*Term, Value, *Term) {
			n := Add(cur, v)
			return n, nil, Slt(n, BV(32, 0))
		})
	case "(*sync.WaitGroup).Done":
		_, g = w.cellOp(f, key, g, ptr(0), 32, "WaitGroup.Done", pos, nil, func(e, cur *Term) (*Term, Value, *Term) {
			n := Sub(cur, BV(32, 1))
			return n, nil, Slt(n, BV(32, 0))
		})
	case "(*sync.WaitGroup).Wait":
		_, g = w.cellOp(f, key, g, ptr(0), 32, "WaitGroup.Wait", pos, func(cur *Term) *Term { return Eq(cur, BV(32, 0)) }, func(e, cur *Term) (*Term, Value, *Term) { return nil, nil, nil })
	// ---- condition variables
	case "sync.NewCond":
		o, fresh := w.newObj(fmt.Sprintf("N%d:%d", t.id, key), fn.Signature.Results().At(0).Type().(*types.Pointer).Elem(), false)
		if fresh {
			o.kind = "cond"
			o.name = "cond@" + w.pos(pos)
		}
		li := args[0].(*Iface)
		var lp *Ptr
		for _, a := range li.alts {
			if a.typ != nil {
				if lp == nil {
					lp = a.val.(*Ptr)
				} else {
					lp = mergePtr(a.g, a.val.(*Ptr), lp)
				}
			}
		}
		if lp == nil {
			panic("cannot encode: NewCond(nil)")
		}
		o.cells["L"] = lp
		r = onePtr(mkLoc(o, ""))
	case "(*sync.Cond).Wait":
		g = w.condWait(f, ptr(0), key, g, pos)
	case "(*sync.Cond).Broadcast":
		p := ptr(0)
		_, g = w.op(t, key, g, opSpec{yield: true, sync: true, pos: pos, kind: "Cond.Broadcast", effect: func(exec *Term) Value {
			for _, a := range p.alts {
				if a.l == nil {
					continue
				}
				for k := range a.l.obj.cells {
					if strings.HasPrefix(k, "parked.") {
						w.setCell(And(exec, a.g), a.l.obj, k, False, False)
					}
				}
			}
			return nil
		}})
	case "(*sync.Cond).Signal":
		// wakes one parked goroutine, chosen by the solver (Go makes no promise which)
		p := ptr(0)
		pick := Var(fmt.Sprintf("signal_pick_t%d_k%d", t.id, key), 8)
		_, g = w.op(t, key, g, opSpec{yield: true, sync: true, pos: pos, kind: "Cond.Signal", effect: func(exec *Term) Value {
			for _, a := range p.alts {
				if a.l == nil {
					continue
				}
				var names []string
				for k := range a.l.obj.cells {
					if strings.HasPrefix(k, "parked.") {
						names = append(names, k)
					}
				}
				sort.Strings(names)
				anyParked, chosen := False, False
				for i, k := range names {
					pk := w.getCell(a.l.obj, k, False).(*Term)
					anyParked = Or(anyParked, pk)
					c := And(pk, Eq(pick, BV(8, uint64(i))))
					chosen = Or(chosen, c)
					w.setCell(And(exec, a.g, c), a.l.obj, k, False, False)
				}
				w.assumes = And(w.assumes, Implies(And(exec, a.g, anyParked), chosen))
			}
			return nil
		}})
	// ---- sync.Pool
	case "(*sync.Pool).Get":
		r, g = w.poolGet(f, fn, ptr(0), key, g, pos)
	case "(*sync.Pool).Put":
		g = w.poolPut(f, ptr(0), args[1], key, g, pos)
	case "(*sync.Once).Do":
		var first Value
		first, g = w.cellOp(f, key, g, ptr(0), 0, "Once.Do", pos, nil, func(e, cur *Term) (*Term, Value, *Term) { return True, Not(cur), nil })
		if first != nil {
			fg := And(g, first.(*Term))
			_, og, pG, pV := w.doCall(f, c, args[1], nil, mkKey(key, -11, 0, 0), fg, pos, nil)
			f.raise(pG, pV)
			g = Or(And(g, Not(first.(*Term))), og)
		}
	// ---- time
	case "time.Now":
		r, g = w.op(t, key, g, opSpec{pos: pos, kind: "time.Now", effect: func(exec *Term) Value { return w.now(exec) }})
		if r == nil {
			r = BV(64, 0)
		}
	case "(time.Time).Add":
		r = Add(term(0), term(1))
	case "(time.Time).Sub":
		r = Sub(term(0), term(1))
	case "(time.Time).Before":
		r = Ult(term(0), term(1))
	case "(time.Time).After":
		r = Ult(term(1), term(0))
	case "(time.Time).Equal":
		r = Eq(term(0), term(1))
	case "(time.Time).IsZero":
		r = Eq(term(0), BV(64, 0))
	case "time.Since":
		panic("cannot encode: time.Since")
	case "time.Sleep":
		// no effect on the model: a sleeping goroutine is simply not scheduled
	case "time.NewTicker":
		tt := fn.Signature.Results().At(0).Type().(*types.Pointer).Elem()
		o, fresh := w.newObj(fmt.Sprintf("K%d:%d", t.id, key), tt, false)
		if fresh {
			o.name = "ticker@" + w.pos(pos)
			st := tt.Underlying().(*types.Struct)
			co, _ := w.newObj(fmt.Sprintf("KC%d:%d", t.id, key), st.Field(0).Type(), false)
			co.kind = "ticker"
			co.name = "ticker.C@" + w.pos(pos)
			o.cells[".0"] = onePtr(mkLoc(co, ""))
		}
		r = onePtr(mkLoc(o, ""))
	case "(*time.Ticker).Stop":
		p := ptr(0)
		_, g = w.op(t, key, g, opSpec{yield: true, sync: true, pos: pos, kind: "Ticker.Stop", effect: func(exec *Term) Value {
			for _, a := range p.alts {
				if a.l == nil {
					continue
				}
				cp := a.l.obj.cells[".0"].(*Ptr)
				w.setCell(And(exec, a.g), cp.alts[0].l.obj, "stopped", True, False)
			}
			return nil
		}})
	// ---- context
	case "context.Background", "context.TODO":
		r = w.ctxIface(w.ctxObject("bg", nil))
	case "context.WithCancel":
		o := w.ctxObject(fmt.Sprintf("%d:%d", t.id, key), args[0].(*Iface))
		o.name = "ctx@" + w.pos(pos)
		r = &Struct{[]Value{w.ctxIface(o), &Func{[]FAlt{{g: True, intr: "cancel", iobj: o}}}}}
	case "(*context.cancelCtx).Done":
		p := ptr(0)
		out := &Ptr{}
		for _, a := range p.alts {
			if a.l == nil {
				out.alts = append(out.alts, PAlt{a.g, nil})
				continue
			}
			out.alts = append(out.alts, PAlt{a.g, a.l.obj.cells["done"].(*Ptr).alts[0].l})
		}
		r = out
	case "(*context.cancelCtx).Err":
		p := ptr(0)
		r, g = w.op(t, key, g, opSpec{yield: true, sync: true, pos: pos, kind: "ctx.Err", effect: func(exec *Term) Value {
			var out Value = nilIface()
			for _, a := range p.alts {
				if a.l != nil {
					out = merge(And(a.g, w.ctxCancelled(a.l.obj)), mkIface(w.errType(), onePtr(mkLoc(w.errObj("context canceled"), ""))), out)
				}
			}
			return out
		}})
		if r == nil {
			r = nilIface()
		}
	// ---- errors / fmt
	case "errors.New":
		o := w.errObj(fmt.Sprintf("errors.New#%d:%d", t.id, key))
		o.cells[".0"] = args[0]
		if s := term(0); s.IsConst() {
			o.name = strNames[s.val]
		}
		r = mkIface(w.errType(), onePtr(mkLoc(o, "")))
	case "errors.Is":
		r = w.errIs(args[0], args[1], 0)
	case "errors.Join":
		// nil if every operand is nil, otherwise a new error wrapping the non-nil ones
		elems := w.sliceElems(args[0].(*Slice), w.errIfaceType())
		anyNonNil := False
		var ws []Value
		for _, e := range elems {
			iv := e.(*Iface)
			nn := False
			for _, a := range iv.alts {
				if a.typ != nil {
					nn = Or(nn, a.g)
				}
			}
			anyNonNil = Or(anyNonNil, nn)
			ws = append(ws, iv)
		}
		o := w.errObj(fmt.Sprintf("errors.Join#%d:%d", t.id, key))
		o.name = "errors.Join@" + w.pos(pos)
		errWraps[o] = ws
		r = merge(anyNonNil, mkIface(w.errType(), onePtr(mkLoc(o, ""))), nilIface())
	case "fmt.Errorf":
		o := w.errObj(fmt.Sprintf("fmt.Errorf#%d:%d", t.id, key))
		fs, _ := constString(c.Args[0])
		o.name = "Errorf(" + fs + ")@" + w.pos(pos)
		if strings.Contains(fs, "%w") {
			var ws []Value
			for _, e := range w.sliceElems(args[1].(*Slice), anyType) {
				if iv, ok := e.(*Iface); ok {
					ws = append(ws, iv)
				}
			}
			errWraps[o] = ws
		}
		r = mkIface(w.errType(), onePtr(mkLoc(o, "")))
	case "fmt.Sprintf", "fmt.Sprint":
		var ts []*Term
		for i, a := range args {
			if s, ok := a.(*Slice); ok {
				for _, e := range w.sliceElems(s, anyType) {
					ts = append(ts, flat32(e))
				}
			} else {
				_ = i
				ts = append(ts, flat32(a))
			}
		}
		r = UF(fmt.Sprintf("sprintf%d", len(ts)), 32, ts...)
	case "fmt.Println", "fmt.Printf", "fmt.Print", "log.Printf", "log.Println":
		r = &Struct{[]Value{BV(64, 0), nilIface()}}
	case "runtime.NumCPU":
		v := Var("nd_numcpu", 64)
		w.assumes = And(w.assumes, Not(Ult(v, BV(64, 1))), Ult(v, BV(64, 5)))
		r = v
	case "runtime.Gosched":
	// ---- json
	case "encoding/json.Marshal":
		r, g = w.jsonMarshal(f, args[0].(*Iface), key, g, pos)
	case "encoding/json.Unmarshal":
		r, g = w.jsonUnmarshal(f, args[0].(*Slice), args[1].(*Iface), key, g, pos)
	default:
		used = false
		return nil, g, false
	}
	return r, g, true
}

// ---------------- harness API
func (w *W) harnessAPI(f *frame, fn *ssa.Function, args []Value, key int, g *Term, pos token.Pos, c *ssa.CallCommon) (Value, *Term, bool) {
	if !w.isHarnessFn(fn) {
		return nil, g, false
	}
	t := f.t
	switch fn.Name() {
	case "vNondetInt":
		v := Var(w.nondetName(f, key, "int"), 64)
		w.noteNondet(v, pos)
		w.traceNondet(f, key, g, v, pos)
		return v, g, true
	case "vNondetBool":
		v := Var(w.nondetName(f, key, "bool"), 0)
		w.noteNondet(v, pos)
		w.traceNondet(f, key, g, v, pos)
		return v, g, true
	case "vNondetUint8":
		v := Var(w.nondetName(f, key, "u8"), 8)
		w.noteNondet(v, pos)
		w.traceNondet(f, key, g, v, pos)
		return v, g, true
	case "vNondetString":
		v := Var(w.nondetName(f, key, "str"), 32)
		w.noteNondet(v, pos)
		w.traceNondet(f, key, g, v, pos)
		return v, g, true
	case "vNondetRange":
		// an enumerable choice lo..hi (constant bounds): an ite tree over fresh Booleans, so that it can size allocations
		lo, hi := args[0].(*Term), args[1].(*Term)
		if !lo.IsConst() || !hi.IsConst() || int64(hi.val)-int64(lo.val) > 16 || int64(hi.val) < int64(lo.val) {
			panic("vNondetRange needs small constant bounds at " + w.pos(pos))
		}
		name := w.nondetName(f, key, "int")
		var v *Term = lo
		for k := int64(lo.val) + 1; k <= int64(hi.val); k++ {
			v = Ite(Var(fmt.Sprintf("%s_ge%d", name, k), 0), BV(64, uint64(k)), v)
		}
		// ge_k false => all higher ge false is not required: the tree picks the largest k whose flag is set
		if _, ok := w.nondetPos[name]; !ok {
			if splitMode {
				// one option per value k: ge_k set, every higher flag clear, lower flags clear (irrelevant)
				var c splitChoice
				for k := int64(lo.val); k <= int64(hi.val); k++ {
					o := map[string]*Term{}
					for j := int64(lo.val) + 1; j <= int64(hi.val); j++ {
						o[fmt.Sprintf("%s_ge%d", name, j)] = Bool(j == k)
					}
					c.opts = append(c.opts, o)
				}
				splitChoices = append(splitChoices, c)
			}
			w.nondetPos[name] = w.pos(pos)
			w.nondets = append(w.nondets, v)
			w.nondetNames[v.id] = name
		}
		w.traceNondet(f, key, g, v, pos)
		return v, g, true
	case "vLibGoroutinesAlive":
		if f.finalGuard == nil {
			// in the atomic prologue nothing but the harness has run: alive = spawned so far
			if !w.prologue || t.id != 0 {
				panic("vLibGoroutinesAlive is only meaningful in final-state predicates and in the prologue")
			}
			n := BV(64, 0)
			for _, th := range w.threads {
				if th.fromLib && th.spawned != nil {
					n = Add(n, Ite(th.spawned, BV(64, 1), BV(64, 0)))
				}
			}
			return n, g, true
		}
		n := BV(64, 0)
		for _, th := range w.threads {
			if th.fromLib {
				n = Add(n, Ite(And(th.spawned, Not(th.finished)), BV(64, 1), BV(64, 0)))
			}
		}
		return n, g, true
	case "vPrologueEnd":
		w.prologue = false
		return nil, g, true
	case "vAssume":
		c := args[0].(*Term)
		if f.finalGuard != nil {
			w.assumes = And(w.assumes, Implies(And(f.finalGuard, g), c))
			return nil, g, true
		}
		_, ng := w.op(t, key, g, opSpec{pos: pos, kind: "assume", effect: func(exec *Term) Value {
			w.assumes = And(w.assumes, Implies(exec, c))
			return nil
		}})
		return nil, ng, true
	case "vAssert":
		id, ok := constString(c.Args[0])
		if !ok {
			panic("vAssert id must be a constant string at " + w.pos(pos))
		}
		cond := args[1].(*Term)
		if f.finalGuard != nil {
			w.addViol(id, And(f.finalGuard, g, Not(cond)), w.pos(pos))
			return nil, g, true
		}
		w.addViol(id, False, w.pos(pos))
		_, ng := w.op(t, key, g, opSpec{pos: pos, kind: "assert " + id, sync: false, effect: func(exec *Term) Value {
			w.addViol(id, And(exec, Not(cond)), w.pos(pos))
			return nil
		}})
		return nil, ng, true
	case "vReach":
		id, _ := constString(c.Args[0])
		if f.finalGuard != nil {
			w.addReach(id, And(f.finalGuard, g))
			return nil, g, true
		}
		_, ng := w.op(t, key, g, opSpec{pos: pos, kind: "reach", effect: func(exec *Term) Value {
			w.addReach(id, exec)
			return nil
		}})
		return nil, ng, true
	case "vAtQuiescence", "vAtAnyCut":
		if t.round == 0 && !w.observe && f.finalGuard == nil {
			if fn.Name() == "vAtQuiescence" {
				w.atQuiesce = append(w.atQuiesce, args[0].(*Func))
			} else {
				w.atCut = append(w.atCut, args[0].(*Func))
			}
		}
		return nil, g, true
	case "vThreadDone": // true iff harness goroutine slot n has finished (final-state predicates only)
		panic("vThreadDone not supported")
	}
	return nil, g, false
}

func (w *W) ndName(v *Term) string {
	if n, ok := w.nondetNames[v.id]; ok {
		return n
	}
	return v.name
}

// traceNondet records when (and whether) a vNondet call is executed, so that a replay hands out the values
// in the order the native code asks for them.
func (w *W) traceNondet(f *frame, key int, g *Term, v *Term, pos token.Pos) {
	if f.finalGuard != nil || f.t.alone {
		return
	}
	w.op(f.t, mkKey(key, -21, 0, 0), g, opSpec{pos: pos, kind: "nondet", traced: true, nondet: v, effect: func(exec *Term) Value { return nil }})
}

func (w *W) noteNondet(v *Term, pos token.Pos) {
	if _, ok := w.nondetPos[v.name]; !ok {
		w.nondetPos[v.name] = w.pos(pos)
		w.nondets = append(w.nondets, v)
	}
}

// ---------------- sync.Cond
func (w *W) condWait(f *frame, p *Ptr, key int, g *Term, pos token.Pos) *Term {
	t := f.t
	g = w.rtPanic(f, g, p.isNil(), "nil pointer dereference", pos)
	cellName := fmt.Sprintf("parked.%d", t.id)
	lt := leafType(32)
	// step 1: unlock + park
	for _, a := range p.alts {
		if a.l != nil {
			if _, ok := a.l.obj.cells[cellName]; !ok {
				a.l.obj.cells[cellName] = False
			}
		}
	}
	r, g1 := w.op(t, key, g, opSpec{yield: true, sync: true, pos: pos, kind: "Cond.Wait(park)", effect: func(exec *Term) Value {
		pc := False
		for _, a := range p.alts {
			if a.l == nil {
				continue
			}
			eg := And(exec, a.g)
			lp := a.l.obj.cells["L"].(*Ptr)
			for _, la := range lp.alts {
				if la.l == nil {
					continue
				}
				cur := w.load(la.l, lt).(*Term)
				pc = Or(pc, And(eg, la.g, Not(Eq(cur, BV(32, writerLocked)))))
				la.l.obj.cells[la.l.path] = Ite(And(eg, la.g), BV(32, 0), cur)
			}
			w.setCell(eg, a.l.obj, cellName, True, False)
		}
		return pc
	}})
	if r != nil {
		g1 = w.rtPanic(f, g1, r.(*Term), "sync: unlock of unlocked mutex (Cond.Wait)", pos)
	}
	// step 2: woken and lock free -> lock
	en := False
	for _, a := range p.alts {
		if a.l == nil {
			continue
		}
		parked := w.getCell(a.l.obj, cellName, False).(*Term)
		lp := a.l.obj.cells["L"].(*Ptr)
		free := False
		for _, la := range lp.alts {
			if la.l != nil {
				free = Or(free, And(la.g, Eq(w.load(la.l, lt).(*Term), BV(32, 0))))
			}
		}
		en = Or(en, And(a.g, Not(parked), free))
	}
	_, g2 := w.op(t, mkKey(key, -13, 0, 0), g1, opSpec{yield: true, sync: true, enabled: en, pos: pos, kind: "Cond.Wait(wake)", effect: func(exec *Term) Value {
		for _, a := range p.alts {
			if a.l == nil {
				continue
			}
			lp := a.l.obj.cells["L"].(*Ptr)
			for _, la := range lp.alts {
				if la.l != nil {
					cur := w.load(la.l, lt).(*Term)
					la.l.obj.cells[la.l.path] = Ite(And(exec, a.g, la.g), BV(32, writerLocked), cur)
				}
			}
		}
		return nil
	}})
	return g2
}

// ---------------- sync.Pool: a bag of at most one object; Get may also miss, Put may also drop
func poolNewPath(fn *ssa.Function) string {
	st := fn.Signature.Recv().Type().(*types.Pointer).Elem().Underlying().(*types.Struct)
	for i := 0; i < st.NumFields(); i++ {
		if st.Field(i).Name() == "New" {
			return fmt.Sprintf(".%d", i)
		}
	}
	panic("sync.Pool has no New field")
}

func (w *W) poolGet(f *frame, fn *ssa.Function, p *Ptr, key int, g *Term, pos token.Pos) (Value, *Term) {
	t := f.t
	np := poolNewPath(fn)
	var hitRes Value
	hit := False
	g1 := g
	if w.poolBag > 0 {
		take := Var(fmt.Sprintf("pool_take_t%d_k%d", t.id, key), 0)
		var r Value
		r, g1 = w.op(t, key, g, opSpec{yield: true, sync: true, pos: pos, kind: "Pool.Get", effect: func(exec *Term) Value {
			var v Value = nilIface()
			h := False
			for _, a := range p.alts {
				if a.l == nil {
					continue
				}
				full := w.getCell(a.l.obj, a.l.path+"#full", False).(*Term)
				hh := And(a.g, full, take)
				v = merge(hh, w.getCell(a.l.obj, a.l.path+"#item", nilIface()), v)
				h = Or(h, hh)
				w.setCell(And(exec, hh), a.l.obj, a.l.path+"#full", False, False)
			}
			return &Struct{[]Value{v, h}}
		}})
		if r != nil {
			hitRes = r.(*Struct).f[0]
			hit = r.(*Struct).f[1].(*Term)
		}
	}
	// miss: call New (nil New -> nil result)
	var newFn Value
	for _, a := range p.alts {
		if a.l == nil {
			continue
		}
		fv := w.load(mkLoc(a.l.obj, a.l.path+np), fn.Signature.Recv().Type().(*types.Pointer).Elem().Underlying().(*types.Struct).Field(fieldIndex(np)).Type())
		if newFn == nil {
			newFn = fv
		} else {
			newFn = merge(a.g, fv, newFn)
		}
	}
	missG := And(g1, Not(hit))
	var res Value = nilIface()
	out := And(g1, hit)
	if !missG.IsFalse() && newFn != nil {
		nf := newFn.(*Func)
		live := &Func{}
		nilG := False
		for _, a := range nf.alts {
			if a.fn == nil && a.intr == "" {
				nilG = Or(nilG, a.g)
			} else {
				live.alts = append(live.alts, a)
			}
		}
		out = Or(out, And(missG, nilG))
		if len(live.alts) > 0 {
			r, og, pG, pV := w.doCall(f, nil, live, nil, mkKey(key, -15, 0, 0), And(missG, Not(nilG)), pos, nil)
			f.raise(pG, pV)
			if r != nil {
				res = merge(nilG, nilIface(), r)
			}
			out = Or(out, og)
		}
	}
	if hitRes != nil {
		res = merge(hit, hitRes, res)
	}
	return res, out
}

func fieldIndex(p string) int {
	var i int
	fmt.Sscanf(p, ".%d", &i)
	return i
}

func (w *W) poolPut(f *frame, p *Ptr, v Value, key int, g *Term, pos token.Pos) *Term {
	if w.poolBag == 0 {
		return g
	}
	if w.access != nil {
		w.publish(v)
	}
	t := f.t
	keep := Var(fmt.Sprintf("pool_keep_t%d_k%d", t.id, key), 0)
	_, ng := w.op(t, key, g, opSpec{yield: true, sync: true, pos: pos, kind: "Pool.Put", effect: func(exec *Term) Value {
		for _, a := range p.alts {
			if a.l == nil {
				continue
			}
			full := w.getCell(a.l.obj, a.l.path+"#full", False).(*Term)
			sg := And(exec, a.g, Not(full), keep)
			w.setCell(sg, a.l.obj, a.l.path+"#item", v, nilIface())
			w.setCell(sg, a.l.obj, a.l.path+"#full", True, False)
		}
		return nil
	}})
	return ng
}

// ---------------- context
func (w *W) ctxType() types.Type {
	p := w.prog.ImportedPackage("context")
	return types.NewPointer(p.Pkg.Scope().Lookup("cancelCtx").Type())
}

func (w *W) ctxObject(name string, parent *Iface) *Object {
	o, fresh := w.newObj("X:"+name, w.ctxType().(*types.Pointer).Elem(), false)
	if fresh {
		o.kind = "ctx"
		d, _ := w.newObj("XD:"+name, types.NewChan(types.RecvOnly, types.NewStruct(nil, nil)), false)
		d.kind = "ctxdone"
		d.cells["ctx"] = onePtr(mkLoc(o, ""))
		d.name = "ctx.Done()"
		o.cells["done"] = onePtr(mkLoc(d, ""))
	}
	if parent != nil {
		pp := &Ptr{}
		for _, a := range parent.alts {
			if a.typ != nil {
				if vp, ok := a.val.(*Ptr); ok {
					for _, pa := range vp.alts {
						if pa.l != nil && pa.l.obj.kind == "ctx" {
							pp.alts = append(pp.alts, PAlt{And(a.g, pa.g), pa.l})
						}
					}
				}
			}
		}
		o.cells["parent"] = pp
	}
	return o
}

func (w *W) ctxIface(o *Object) Value { return mkIface(w.ctxType(), onePtr(mkLoc(o, ""))) }

func (w *W) intrFuncValue(f *frame, a FAlt, args []Value, key int, g *Term, pos token.Pos) (Value, *Term) {
	switch a.intr {
	case "cancel":
		o := a.iobj
		_, ng := w.op(f.t, key, g, opSpec{yield: true, sync: true, pos: pos, kind: "cancel()", syncCell: true, write: true, accCells: []string{o.key + "|"}, accNames: []string{o.name}, effect: func(exec *Term) Value {
			w.setCell(exec, o, "cancelled", True, False)
			return nil
		}})
		return nil, ng
	}
	panic("unknown intrinsic function value " + a.intr)
}

// ---------------- encoding/json on jobView: uninterpreted round trip
func (w *W) jsonMarshal(f *frame, v *Iface, key int, g *Term, pos token.Pos) (Value, *Term) {
	t := f.t
	bt := types.NewSlice(types.Typ[types.Uint8])
	o, fresh := w.newObj(fmt.Sprintf("B%d:%d", t.id, key), types.Typ[types.Uint8], false)
	if fresh {
		o.kind = "blob"
		o.n = 1
		o.name = "json@" + w.pos(pos)
	}
	fail := False
	var sv Value
	for _, a := range v.alts {
		if a.typ == nil {
			continue
		}
		if !jsonEncodable(a.typ) {
			fail = Or(fail, a.g)
		}
		if sv == nil {
			sv = a.val
		} else {
			sv = merge(a.g, a.val, sv)
		}
		o.cells["type"] = strConst(a.key)
	}
	r, ng := w.op(t, key, g, opSpec{pos: pos, kind: "json.Marshal", effect: func(exec *Term) Value {
		ok := And(exec, Not(fail))
		if st, isS := sv.(*Struct); isS {
			for i, fv := range st.f {
				o.cells[fmt.Sprintf("f%d", i)] = fv
			}
			o.cells["nf"] = BV(64, uint64(len(st.f)))
		}
		w.setCell(ok, o, "valid", True, False)
		okS := &Struct{[]Value{&Slice{onePtr(mkLoc(o, "")), BV(64, 0), BV(64, 1), BV(64, 1)}, nilIface()}}
		badS := &Struct{[]Value{zero(bt), mkIface(w.errType(), onePtr(mkLoc(w.errObj("json: unsupported type"), "")))}}
		return merge(fail, badS, okS)
	}})
	if r == nil {
		r = &Struct{[]Value{zero(bt), nilIface()}}
	}
	return r, ng
}

func jsonEncodable(t types.Type) bool {
	switch u := t.Underlying().(type) {
	case *types.Signature, *types.Chan:
		return false
	case *types.Struct:
		for i := 0; i < u.NumFields(); i++ {
			if !jsonEncodable(u.Field(i).Type()) {
				return false
			}
		}
	}
	return true
}

func (w *W) jsonUnmarshal(f *frame, data *Slice, dst *Iface, key int, g *Term, pos token.Pos) (Value, *Term) {
	t := f.t
	var dp *Ptr
	var st types.Type
	for _, da := range dst.alts {
		if da.typ != nil {
			if dp != nil {
				panic("cannot encode: json.Unmarshal into dynamic destination")
			}
			dp = da.val.(*Ptr)
			st = da.typ.(*types.Pointer).Elem()
		}
	}
	if dp == nil {
		panic("cannot encode: json.Unmarshal(nil)")
	}
	sts := st.Underlying().(*types.Struct)
	r, ng := w.op(t, key, g, opSpec{pos: pos, kind: "json.Unmarshal", effect: func(exec *Term) Value {
		var res Value = nilIface()
		bad := mkIface(w.errType(), onePtr(mkLoc(w.errObj("json: cannot unmarshal"), "")))
		view := zero(st)
		okAll := False
		for _, a := range data.arr.alts {
			if a.l == nil {
				res = merge(a.g, bad, res)
				continue
			}
			o := a.l.obj
			valid := w.getCell(o, "valid", False).(*Term)
			typeOK := false
			if ts, ok := o.cells["type"].(*Term); ok && ts.IsConst() && strNames[ts.val] == typeKey(st) {
				typeOK = true
			}
			if !typeOK {
				res = merge(a.g, bad, res)
				continue
			}
			okG := And(a.g, valid)
			res = merge(And(a.g, Not(valid)), bad, res)
			sv := &Struct{make([]Value, sts.NumFields())}
			for i := range sv.f {
				sv.f[i] = o.cells[fmt.Sprintf("f%d", i)]
				if sv.f[i] == nil {
					sv.f[i] = zero(sts.Field(i).Type())
				}
			}
			view = merge(okG, sv, view)
			okAll = Or(okAll, okG)
		}
		return &Struct{[]Value{res, okAll, view}}
	}})
	if r == nil {
		return nilIface(), ng
	}
	rs := r.(*Struct)
	sg := And(ng, rs.f[1].(*Term))
	if !sg.IsFalse() {
		if w.allLocal(dp, t) {
			w.storePtr(sg, dp, st, rs.f[2])
		} else {
			w.op(t, mkKey(key, -17, 0, 0), sg, opSpec{pos: pos, kind: "store", effect: func(exec *Term) Value { w.storePtr(exec, dp, st, rs.f[2]); return nil }})
		}
	}
	return rs.f[0], ng
}

func (w *W) trackLock(t *Thread, p *Ptr, mode byte) {
	if w.access == nil {
		return
	}
	if t.held == nil {
		t.held = map[string]byte{}
	}
	for _, a := range p.alts {
		if a.l == nil {
			continue
		}
		k := a.l.obj.key + "|" + a.l.path
		if mode == 0 {
			delete(t.held, k)
		} else if len(p.alts) == 1 {
			t.held[k] = mode
		}
	}
}
