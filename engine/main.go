package main

import (
	"encoding/json"
	"flag"
	"fmt"
	"os"
	"path/filepath"
	"runtime/debug"
	"sort"
	"strconv"
	"strings"
	"time"

	"golang.org/x/tools/go/packages"
	"golang.org/x/tools/go/ssa"
	"golang.org/x/tools/go/ssa/ssautil"
)

var repoModule = "github.com/goptics/varmq"

type Result struct {
	Harness      string            `json:"harness"`
	Pkg          string            `json:"pkg"`
	Bounds       map[string]int    `json:"bounds"`
	Unwind       map[string]int    `json:"unwind_overrides,omitempty"`
	UnwindUnused []string          `json:"unwind_overrides_unmatched,omitempty"`
	Threads      []string          `json:"threads"`
	Ops          int               `json:"op_instances"`
	YieldVars    int               `json:"schedule_vars"`
	Terms        int               `json:"terms"`
	Funcs        []string          `json:"functions_encoded"`
	Intrinsics   []string          `json:"intrinsics"`
	Loops        []LoopRes         `json:"loops"`
	Obligations  []Obligation      `json:"obligations"`
	Reach        []Obligation      `json:"reach"`
	Races        []RaceRes         `json:"races,omitempty"`
	EncodeS      float64           `json:"encode_s"`
	SolveS       float64           `json:"solve_s"`
	Error        string            `json:"error,omitempty"`
	Solver       string            `json:"solver"`
	Nondets      map[string]string `json:"nondets,omitempty"`
	RacyCells    []string          `json:"racy_cells,omitempty"`
}

type LoopRes struct {
	Name      string `json:"loop"`
	Iters     int    `json:"iterations_unrolled"`
	Truncated string `json:"unwinding_assertion"` // "holds" (unsat), "fails" (sat: bound too small for some executions), "n/a"
}

type Obligation struct {
	ID      string  `json:"id"`
	Pos     string  `json:"pos,omitempty"`
	Verdict string  `json:"verdict"` // unsat | sat | unknown | error
	Trivial bool    `json:"trivial,omitempty"`
	TimeS   float64 `json:"time_s"`
	Nodes   int     `json:"nodes,omitempty"`
	Vars    int     `json:"vars,omitempty"`
	Cex     *Cex    `json:"cex,omitempty"`
	Detail  string  `json:"detail,omitempty"`
	Window  string  `json:"window,omitempty"`
}

type Cex struct {
	Nondets map[string]string `json:"nondets"`
	NondetSeq []NondetVal `json:"nondet_seq"`
	Trace   []TraceStep       `json:"trace"`
	Crashes []string          `json:"crashes,omitempty"`
	Bursts  [][2]int          `json:"bursts"`
	Windows []string          `json:"windows,omitempty"`
	Final   []string          `json:"final_state,omitempty"`
}

type TraceStep struct {
	Thread int    `json:"t"`
	Round  int    `json:"r"`
	Kind   string `json:"op"`
	Pos    string `json:"pos"`
	Fn     string `json:"fn,omitempty"`
	Spawn  int    `json:"spawn,omitempty"`
}

type NondetVal struct {
	Name   string `json:"name"`
	Thread int    `json:"t"`
	Kind   string `json:"kind"`
	Value  string `json:"value"`
	Pos    string `json:"pos"`
}

func main() {
	var (
		overlayDir = flag.String("overlay", "", "directory with harness .go files for the package")
		pkgDir     = flag.String("pkg", ".", "package directory relative to the repo")
		entry      = flag.String("entry", "", "harness entry function")
		repo       = flag.String("repo", "/repo", "repository root")
		R          = flag.Int("R", 2, "rounds")
		U          = flag.Int("U", 3, "default loop unwinding")
		K          = flag.Int("K", 1, "ticker ticks")
		pool       = flag.Int("pool", 0, "sync.Pool bag size (0 or 1)")
		unwind     = flag.String("unwind", "", "per-loop unwinding overrides: substr=n,substr=n")
		timeout    = flag.Int("timeout", 60, "solver timeout per query (s)")
		solver     = flag.String("solver", "portfolio", "solver: portfolio (cvc5 + z3 5.1, first answer wins) | z3-new | z3 | cvc5")
		out        = flag.String("out", "", "result JSON file")
		only       = flag.String("only", "", "comma-separated obligation ids to solve (default all)")
		race       = flag.Bool("race", false, "race query mode")
		par        = flag.Int("par", 8, "parallel solver processes")
		keep       = flag.String("keep", "", "directory to keep SMT files")
		windows    = flag.String("windows", "", "JSON file with window specs (known findings)")
		order      = flag.String("order", "", "comma-separated substrings of goroutine names that run first in every round")
		spawn      = flag.String("spawn", "", "per-go-statement thread slots: substr=n,substr=n (default 1)")
		nopor      = flag.Bool("nopor", false, "disable partial-order reduction and frozen-cell folding (cross-check)")
		noloops    = flag.Bool("noloopcheck", false, "skip unwinding-assertion queries")
		split      = flag.Bool("split", false, "decide large queries by case split over the harness's vNondetRange choices (substitute, re-simplify, solve the leaves)")
		seqOnly    = flag.Bool("seq", false, "sequential prefix: goroutines spawned by the harness are not encoded (they have not run when the harness ends); only inline assertions of the harness can be claimed")
	)
	racyF := flag.String("racyfields", "", "Type.field,... : fields whose plain accesses get replay scheduling points")
	instr := flag.String("instrument", "", "write instrumented sources for replay to this directory and exit")
	flag.Parse()
	if *instr != "" {
		for _, f := range strings.Split(*racyF, ",") {
			if f != "" {
				racyFields[f] = true
			}
		}
		instrumentMain(*repo, *pkgDir, *overlayDir, *instr)
		return
	}
	debug.SetGCPercent(400)
	res := &Result{Harness: *entry, Pkg: *pkgDir, Bounds: map[string]int{"R": *R, "U": *U, "K": *K, "pool": *pool}, Solver: *solver}
	t0 := time.Now()
	func() {
		defer func() {
			if r := recover(); r != nil {
				res.Error = fmt.Sprint(r)
				if !strings.HasPrefix(res.Error, "cannot encode") {
					res.Error += "\n" + string(debug.Stack())
				}
			}
		}()
		w := load(*repo, *pkgDir, *overlayDir, *entry)
		w.R, w.U, w.K, w.poolBag = *R, *U, *K, *pool
		w.raceMode = *race
		w.seqOnly = *seqOnly
		splitMode = *split
		if *seqOnly {
			res.Bounds["seq"] = 1
		}
		for _, kv := range strings.Split(*unwind, ",") {
			if i := strings.LastIndex(kv, "="); i > 0 {
				n, _ := strconv.Atoi(kv[i+1:])
				w.unwindOverride[kv[:i]] = n
				if res.Unwind == nil {
					res.Unwind = map[string]int{}
				}
				res.Unwind[kv[:i]] = n
			}
		}
		for _, kv := range strings.Split(*spawn, ",") {
			if i := strings.LastIndex(kv, "="); i > 0 {
				n, _ := strconv.Atoi(kv[i+1:])
				w.spawnOverride[kv[:i]] = n
			}
		}
		if *order != "" {
			w.orderFirst = strings.Split(*order, ",")
		}
		if *windows != "" {
			w.loadWindows(*windows)
		}
		root := w.findEntry(*entry)
		// pass 1: find cells accessed by several goroutines (scheduling points for plain accesses)
		w.access = map[string]*cellAccess{}
		w.accessName = map[string]string{}
		w.run(root)
		w.declareStaticReach(root)
		racy, frozen, conflict := map[string]bool{}, map[string]bool{}, map[string]bool{}
		for k, a := range w.access {
			if a.racy() || (*race && a.shared()) {
				racy[k] = true
				res.RacyCells = append(res.RacyCells, w.accessName[k])
			}
			if !a.written {
				frozen[k] = true
			}
			if a.conflicting() {
				conflict[k] = true
			}
		}
		sort.Strings(res.RacyCells)
		{
			// pass 2: the real encoding, with scheduling points only where pass 1 found them necessary
			w2 := load(*repo, *pkgDir, *overlayDir, *entry)
			w2.R, w2.U, w2.K, w2.poolBag, w2.raceMode = *R, *U, *K, *pool, *race
			w2.unwindOverride = w.unwindOverride
			w2.seqOnly = *seqOnly
			w2.spawnOverride = w.spawnOverride
			w2.orderFirst = w.orderFirst
			w2.windows = w.windows
			for _, ws := range w2.windows {
				ws.reset()
			}
			w2.racy, w2.frozen, w2.conflict = racy, frozen, conflict
			if *nopor {
				w2.frozen, w2.conflict = nil, nil
			}
			resetGlobals()
			root = w2.findEntry(*entry)
			w2.run(root)
			w2.declareStaticReach(root)
			if *race {
				w2.raceObligations()
			}
			w = w2
		}
		if debugYields {
			for k, v := range w.stats {
				fmt.Fprintln(os.Stderr, v, k)
			}
		}
		res.EncodeS = time.Since(t0).Seconds()
		for k := range res.Unwind {
			if !unwindHit[k] {
				res.UnwindUnused = append(res.UnwindUnused, k)
				fmt.Fprintln(os.Stderr, "gobmc: unwind override matched no loop:", k)
			}
		}
		w.fill(res)
		t1 := time.Now()
		w.solveAll(res, *solver, *timeout, *par, *only, *keep, *noloops)
		res.SolveS = time.Since(t1).Seconds()
	}()
	b, _ := json.MarshalIndent(res, "", " ")
	if *out != "" {
		os.WriteFile(*out, b, 0644)
	} else {
		fmt.Println(string(b))
	}
	if res.Error != "" {
		fmt.Fprintln(os.Stderr, "gobmc error:", res.Error)
		os.Exit(2)
	}
}

func resetGlobals() {
	// keys and locations are process-global; objects are per world, so clear the location cache
	locs = map[string]*Loc{}
	errWraps = map[*Object][]Value{}
	splitChoices = nil
}

var loadedProg *ssa.Program
var loadedPkgs []*ssa.Package
var loadedFiles string

func load(repo, pkgDir, overlayDir, entry string) *W {
	if loadedProg == nil {
		os.Setenv("PATH", "/opt/veriftools/go1.26.8/bin:"+os.Getenv("PATH"))
		os.Setenv("GOTOOLCHAIN", "local")
		os.Setenv("GOFLAGS", "-mod=mod")
		os.Setenv("GOPROXY", "off")
		overlay := map[string][]byte{}
		ents, err := os.ReadDir(overlayDir)
		if err != nil {
			panic(err)
		}
		for _, e := range ents {
			n := e.Name()
			if !strings.HasSuffix(n, ".go") || strings.HasSuffix(n, "_replay.go") || strings.HasSuffix(n, "_test.go") {
				continue
			}
			src, _ := os.ReadFile(filepath.Join(overlayDir, n))
			overlay[filepath.Join(repo, pkgDir, "zz_verif_"+n)] = src
		}
		cfg := &packages.Config{Mode: packages.LoadAllSyntax, Dir: repo, Overlay: overlay}
		pkgs, err := packages.Load(cfg, "./"+pkgDir)
		if err != nil {
			panic(err)
		}
		var errs []string
		packages.Visit(pkgs, nil, func(p *packages.Package) {
			for _, e := range p.Errors {
				errs = append(errs, e.Error())
			}
		})
		if len(errs) > 0 {
			panic("harness does not compile: " + strings.Join(errs, "; "))
		}
		prog, spkgs := ssautil.AllPackages(pkgs, ssa.InstantiateGenerics)
		prog.Build()
		loadedProg, loadedPkgs = prog, spkgs
	}
	w := &W{prog: loadedProg, fset: loadedProg.Fset, objKey: map[string]*Object{}, funcs: map[string]bool{}, intrUsed: map[string]bool{},
		crashed: False, viol: map[string]*Term{}, violPos: map[string]string{}, assumes: True, reach: map[string]*Term{},
		loopsTruncated: map[string]*Term{}, loopIters: map[string]int{}, fninfo: map[*ssa.Function]*fnInfo{}, nondetPos: map[string]string{}, nondetNames: map[int]string{},
		clock: BV(64, 1), unwindOverride: map[string]int{}, racy: map[string]bool{}, winHit: map[string]*Term{}, stats: map[string]int{},
		slots: map[int][]*Thread{}, siteIDs: map[ssa.Instruction]int{}, spawnOverride: map[string]int{}, spawnTrunc: map[string]*Term{}, recoverFns: map[*ssa.Function]bool{}}
	return w
}

func (w *W) findEntry(entry string) *ssa.Function {
	for _, sp := range loadedPkgs {
		if sp != nil && sp.Func(entry) != nil {
			w.entryPkg = sp
			fn := sp.Func(entry)
			for _, b := range fn.Blocks {
				for _, ins := range b.Instrs {
					if c, ok := ins.(*ssa.Call); ok {
						if cf := c.Call.StaticCallee(); cf != nil && cf.Name() == "vPrologueEnd" {
							w.hasPrologue = true
						}
					}
				}
			}
			return fn
		}
	}
	panic("entry function not found: " + entry)
}

func (w *W) fill(res *Result) {
	for _, t := range w.threads {
		res.Threads = append(res.Threads, fmt.Sprintf("T%d: %s", t.id, t.name))
	}
	res.Ops, res.YieldVars, res.Terms = w.nops, w.nyield, tcount
	for f := range w.funcs {
		if !strings.Contains(f, "zz_verif") {
			res.Funcs = append(res.Funcs, f)
		}
	}
	sort.Strings(res.Funcs)
	res.Intrinsics = sortedKeys(w.intrUsed)
	res.Nondets = map[string]string{}
	for _, v := range w.nondets {
		res.Nondets[w.ndName(v)] = w.nondetPos[w.ndName(v)]
	}
}
