package main

import (
	"fmt"
	"go/types"
)

func (w *W) newObj(key string, t types.Type, local bool) (*Object, bool) {
	if o, ok := w.objKey[key]; ok {
		return o, false
	}
	o := &Object{id: len(w.objs) + 1, typ: t, cells: map[string]Value{}, local: local, name: key, key: key}
	w.objs = append(w.objs, o)
	w.objKey[key] = o
	return o, true
}

func fieldPath(base string, i int) string { return fmt.Sprintf("%s.%d", base, i) }
func elemPath(base string, i int) string  { return fmt.Sprintf("%s[%d]", base, i) }

// load reads a typed location (struct- and array-aware).
func (w *W) load(l *Loc, t types.Type) Value {
	if _, ok := syncLeaf(t); !ok {
		switch u := t.Underlying().(type) {
		case *types.Struct:
			s := &Struct{make([]Value, u.NumFields())}
			for i := range s.f {
				s.f[i] = w.load(mkLoc(l.obj, fieldPath(l.path, i)), u.Field(i).Type())
			}
			return s
		case *types.Array:
			s := &Struct{make([]Value, u.Len())}
			for i := range s.f {
				s.f[i] = w.load(mkLoc(l.obj, elemPath(l.path, i)), u.Elem())
			}
			return s
		}
	}
	if v, ok := l.obj.cells[l.path]; ok {
		return v
	}
	return zero(t)
}

func (w *W) store(g *Term, l *Loc, t types.Type, v Value) {
	if g.IsFalse() {
		return
	}
	if _, ok := syncLeaf(t); !ok {
		switch u := t.Underlying().(type) {
		case *types.Struct:
			sv := v.(*Struct)
			for i := range sv.f {
				w.store(g, mkLoc(l.obj, fieldPath(l.path, i)), u.Field(i).Type(), sv.f[i])
			}
			return
		case *types.Array:
			sv := v.(*Struct)
			for i := range sv.f {
				w.store(g, mkLoc(l.obj, elemPath(l.path, i)), u.Elem(), sv.f[i])
			}
			return
		}
	}
	l.obj.cells[l.path] = merge(g, v, w.load(l, t))
}

// cell access for hidden/scalar cells
func (w *W) getCell(o *Object, path string, def Value) Value {
	if v, ok := o.cells[path]; ok {
		return v
	}
	return def
}
func (w *W) setCell(g *Term, o *Object, path string, v Value, def Value) {
	if g.IsFalse() {
		return
	}
	o.cells[path] = merge(g, v, w.getCell(o, path, def))
}

// loadPtr reads through a guarded pointer; returns the value and the guard under which the pointer is nil.
func (w *W) loadPtr(p *Ptr, t types.Type) (Value, *Term) {
	var out Value
	nilG := False
	for _, a := range p.alts {
		if a.l == nil {
			nilG = Or(nilG, a.g)
			continue
		}
		v := w.load(a.l, t)
		if out == nil {
			out = v
		} else {
			out = merge(a.g, v, out)
		}
	}
	if out == nil {
		out = zero(t)
	}
	return out, nilG
}

func (w *W) storePtr(g *Term, p *Ptr, t types.Type, v Value) *Term {
	nilG := False
	for _, a := range p.alts {
		if a.l == nil {
			nilG = Or(nilG, a.g)
			continue
		}
		w.store(And(g, a.g), a.l, t, v)
	}
	return nilG
}

func (w *W) allLocal(p *Ptr, t *Thread) bool {
	for _, a := range p.alts {
		if a.l != nil && !a.l.obj.local {
			return false
		}
	}
	return true
}
