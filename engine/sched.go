package main

import (
	"fmt"
	"os"
	"go/token"
	"sort"
	"strings"

	"golang.org/x/tools/go/ssa"
)

type opState struct {
	done *Term
	res  Value
}

type Thread struct {
	w         *W
	id        int
	fn        FAlt
	args      []Value
	spawned   *Term
	ops       map[int]*opState
	running   *Term
	round     int
	finished  *Term
	canmove   *Term
	truncated *Term
	key       int
	name      string
	alone     bool // pseudo-thread evaluating final-state predicates
	lastSync  string
	hasWindow bool
	held      map[string]byte
	cutAfterOp bool
	lazyName  string
	lazy      int // >0: walking a loop iteration beyond the unwinding bound (read-only operations only)
	fromLib   bool
}

type traceEv struct {
	thread, round int
	exec          *Term
	pos           string
	kind          string
	fn            string
	key           int
	sync          bool
	spawn         []spawnTake
	blocked       *Term
	nondet        *Term
	pg, done      *Term
}

type spawnTake struct {
	thread int
	take   *Term
}

type violation struct {
	id   string
	cond *Term
	pos  string
}

type W struct {
	prog    *ssa.Program
	fset    *token.FileSet
	objs    []*Object
	objKey  map[string]*Object
	threads []*Thread
	crashed *Term
	crashes []violation // individual crash reasons
	viol    map[string]*Term
	violPos map[string]string
	violOrd []string
	assumes *Term
	reach   map[string]*Term
	reachOrd []string
	nyield  int
	nops    int
	funcs   map[string]bool
	intrUsed map[string]bool
	observe bool
	raceMode bool
	trace   []traceEv
	standing []traceEv
	atQuiesce []*Func
	atCut   []*Func
	R, U    int
	K       int // ticker ticks
	loopsTruncated map[string]*Term
	loopIters map[string]int
	fninfo  map[*ssa.Function]*fnInfo
	harnessFile string
	nondets []*Term
	nondetNames map[int]string
	nondetPos map[string]string
	clock   *Term
	clockN  int
	poolBag int
	unwindOverride map[string]int
	seqOnly        bool // -seq: only the harness goroutine is encoded (sequential prefix)
	racy    map[string]bool     // cells that are scheduling points (from the access pre-pass)
	access  map[string]*cellAccess
	accessName map[string]string
	frozen  map[string]bool
	conflict map[string]bool
	races   []raceCand
	windows []*windowSpec
	winHit  map[string]*Term
	curFn   []string
	stats   map[string]int
	entryPkg *ssa.Package
	slots   map[int][]*Thread
	siteIDs map[ssa.Instruction]int
	spawnOverride map[string]int
	spawnTrunc map[string]*Term
	recoverFns map[*ssa.Function]bool
	orderFirst []string
	prologue bool
	curThread *Thread
	curLabel string
	hasPrologue bool
}

var debugYields = os.Getenv("GOBMC_DEBUG") != ""

type accRec struct {
	thread int
	write  bool
	locks  map[string]byte
}
type cellAccess struct {
	recs     []accRec
	seen     map[string]bool
	written  bool         // written while other goroutines exist (not counting pre-publication writes by the allocator)
	syncThr  map[int]byte // sync cells: per goroutine 'r' (only loads) or 'w'
}

// conflicting: a sync cell on which operations of two goroutines do not commute
func (c *cellAccess) conflicting() bool {
	if len(c.syncThr) < 2 {
		return false
	}
	for _, m := range c.syncThr {
		if m == 'w' {
			return true
		}
	}
	return false
}

// shared: touched by two goroutines, at least once written (locks ignored): the candidates of the race query
func (c *cellAccess) shared() bool {
	for i, a := range c.recs {
		for _, b := range c.recs[i+1:] {
			if a.thread != b.thread && (a.write || b.write) {
				return true
			}
		}
	}
	return false
}

// racyPair: different goroutines, at least one write, no common lock held exclusively by one of them
func (c *cellAccess) racy() bool {
	for i, a := range c.recs {
		for _, b := range c.recs[i+1:] {
			if a.thread == b.thread || !(a.write || b.write) {
				continue
			}
			prot := false
			for k, ma := range a.locks {
				if mb, ok := b.locks[k]; ok && (ma == 'w' || mb == 'w') {
					prot = true
				}
			}
			if !prot {
				return true
			}
		}
	}
	return false
}

// key interning: (parent, a, b, c) -> small int
var keyTab = map[[4]int]int{}
var keyRev [][4]int

func mkKey(parent, a, b, c int) int {
	k := [4]int{parent, a, b, c}
	if i, ok := keyTab[k]; ok {
		return i
	}
	keyRev = append(keyRev, k)
	keyTab[k] = len(keyRev)
	return len(keyRev)
}

func (w *W) othersExist(t *Thread) bool {
	if t.alone {
		return false
	}
	if t.id == 0 && w.prologue {
		// the harness declared a prologue (vPrologueEnd): it runs as one burst, first in round 0
		return false
	}
	for _, o := range w.threads {
		if o != t && !o.spawned.IsFalse() {
			return true
		}
	}
	return false
}

type opSpec struct {
	yield   bool
	enabled *Term
	effect  func(exec *Term) Value
	pos     token.Pos
	kind    string
	sync    bool
	cells     []string
	cellG     []*Term
	cellLabel []string
	write     bool
	syncCell  bool
	traced    bool
	label     string
	nondet    *Term
	spawn     *[]spawnTake
	accCells  []string
	accNames  []string
	accOwn    []bool
	accNoRace []bool
}

// op is one non-local operation instance (the at/exec/done/running scheme).
// Returns the persisted result and the path guard for what follows.
func (w *W) op(t *Thread, key int, pg *Term, o opSpec) (Value, *Term) {
	st := t.ops[key]
	if st == nil {
		st = &opState{done: False}
		t.ops[key] = st
		w.nops++
	}
	if !o.yield && o.enabled == nil && !o.sync {
		// plain step: always enabled, never a scheduling point. It executes in the same burst as the
		// scheduling point that heads its segment, so "done" is just the path guard of the previous walk.
		if t.lazy > 0 && !readOnlyOp(o) {
			// a plain write beyond the bound: treat like a refused step (the goroutine stands before it)
			t.truncated = Or(t.truncated, And(pg, Not(st.done)))
			w.noteLoopTrunc(t.lazyName, And(pg, Not(st.done)))
			return st.res, False
		}
		at := And(pg, Not(st.done))
		if at.IsFalse() || w.observe {
			return st.res, pg
		}
		w.recordAccess(t, o)
		exec := at
		var nv Value
		if !exec.IsFalse() {
			nv = o.effect(exec)
		}
		if nv != nil {
			st.res = merge(exec, nv, st.res)
		}
		if (o.traced || debugYields) && !exec.IsFalse() && !t.alone {
			w.trace = append(w.trace, traceEv{thread: t.id, round: t.round, exec: exec, pos: w.pos(o.pos), kind: o.kind, key: key, sync: true, fn: w.curFnName(), nondet: o.nondet})
		}
		st.done = pg
		return st.res, pg
	}
	if t.lazy > 0 && !readOnlyOp(o) {
		// beyond the unwinding bound: the goroutine may stand (or block) before this operation, but having
		// executed it puts the state outside the bound
		at0 := And(pg, Not(st.done))
		en0 := o.enabled
		if en0 == nil {
			en0 = True
		}
		w.noteLoopTrunc(t.lazyName, And(at0, en0))
		if w.observe && !at0.IsFalse() {
			t.canmove = Or(t.canmove, And(at0, en0))
			w.standing = append(w.standing, traceEv{thread: t.id, exec: at0, pos: w.pos(o.pos), kind: o.kind + " [beyond unwinding bound]", fn: w.curFnName(), blocked: Not(en0)})
		}
		return st.res, False
	}
	at := And(pg, Not(st.done))
	if at.IsFalse() {
		return st.res, st.done
	}
	en := o.enabled
	if en == nil {
		en = True
	}
	if w.observe {
		t.canmove = Or(t.canmove, And(at, en))
		if w.raceMode && len(o.cells) > 0 {
			w.noteRaceCand(t, o, at)
		}
		w.standing = append(w.standing, traceEv{thread: t.id, exec: at, pos: w.pos(o.pos), kind: o.kind, fn: w.curFnName(), blocked: Not(en)})
		return st.res, st.done
	}
	w.recordAccess(t, o)
	exec := And(at, t.running, en)
	yield := o.yield
	if yield && o.syncCell && w.conflict != nil {
		// partial-order reduction: a scheduling point is needed only before operations that do not
		// commute with some operation of another goroutine (pass 1 collected who touches which cell)
		yield = false
		for _, ck := range o.accCells {
			if w.conflict[ck] {
				yield = true
			}
		}
	}
	if yield && w.othersExist(t) {
		w.nyield++
		if debugYields {
			nm := ""
			if len(o.accNames) > 0 {
				nm = o.accNames[0]
			}
			w.stats[fmt.Sprintf("T%d %s %s", t.id, o.kind, nm)]++
		}
		exec = And(exec, Not(Var(fmt.Sprintf("y_t%d_r%d_k%d", t.id, t.round, key), 0)))
	}
	if o.sync {
		for _, ws := range w.windows {
			ws.observe(w, t, o, exec)
		}
	}
	var nv Value
	if !exec.IsFalse() {
		nv = o.effect(exec)
	}
	if nv != nil {
		st.res = merge(exec, nv, st.res)
	}
	if o.sync && !exec.IsFalse() && !t.alone {
		ev := traceEv{thread: t.id, round: t.round, exec: exec, pos: w.pos(o.pos), kind: o.kind, key: key, sync: true, fn: w.curFnName()}
		if o.spawn != nil {
			ev.spawn = *o.spawn
		}
		w.trace = append(w.trace, ev)
	}
	t.running = And(t.running, Or(Not(at), exec))
	st.done = Or(st.done, exec)
	return st.res, st.done
}

func (w *W) curFnName() string {
	if len(w.curFn) == 0 {
		return ""
	}
	return w.curFn[len(w.curFn)-1]
}

func (w *W) pos(p token.Pos) string {
	if !p.IsValid() {
		return "?"
	}
	ps := w.fset.Position(p)
	fn := ps.Filename
	if len(fn) > 6 && fn[:6] == "/repo/" {
		fn = fn[6:]
	}
	return fmt.Sprintf("%s:%d", fn, ps.Line)
}

func (w *W) crash(g *Term, why string) {
	if g.IsFalse() {
		return
	}
	w.crashed = Or(w.crashed, g)
	w.crashes = append(w.crashes, violation{id: "crash", cond: g, pos: why})
}

func (w *W) addViol(id string, cond *Term, pos string) {
	if cond.IsFalse() {
		if _, ok := w.viol[id]; !ok {
			w.viol[id] = False
			w.violPos[id] = pos
			w.violOrd = append(w.violOrd, id)
		}
		return
	}
	if old, ok := w.viol[id]; ok {
		w.viol[id] = Or(old, cond)
	} else {
		w.viol[id] = cond
		w.violPos[id] = pos
		w.violOrd = append(w.violOrd, id)
	}
}

func (w *W) addReach(id string, cond *Term) {
	if old, ok := w.reach[id]; ok {
		w.reach[id] = Or(old, cond)
	} else {
		w.reach[id] = cond
		w.reachOrd = append(w.reachOrd, id)
	}
}

// declareStaticReach: every vReach("id") that occurs in the harness (the entry function and its closures) is a
// reachability witness even if the walk never gets there - a harness that blocks before its assertions would
// otherwise pass vacuously, with the witness (and the assertions after the block) simply absent.
func (w *W) declareStaticReach(root *ssa.Function) {
	seen := map[*ssa.Function]bool{}
	var visit func(fn *ssa.Function)
	visit = func(fn *ssa.Function) {
		if fn == nil || seen[fn] {
			return
		}
		seen[fn] = true
		for _, b := range fn.Blocks {
			for _, ins := range b.Instrs {
				c, ok := ins.(ssa.CallInstruction)
				if !ok {
					continue
				}
				if callee := c.Common().StaticCallee(); callee != nil && callee.Name() == "vReach" && len(c.Common().Args) == 1 {
					if id, ok := constString(c.Common().Args[0]); ok {
						if _, have := w.reach[id]; !have {
							w.addReach(id, False)
						}
					}
				}
			}
		}
		for _, a := range fn.AnonFuncs {
			visit(a)
		}
	}
	visit(root)
}

// run executes the harness for R rounds, then the observer pass and the final-state predicates.
func (w *W) run(root *ssa.Function) {
	main := &Thread{w: w, id: 0, fn: FAlt{g: True, fn: root}, ops: map[int]*opState{}, spawned: True, key: mkKey(0, -1, 0, 0), name: "harness", truncated: False, finished: False}
	w.threads = []*Thread{main}
	for r := 0; r < w.R; r++ {
		visited := map[int]bool{}
		for {
			// next unvisited goroutine: the harness first, then those named by -order, then discovery order
			var t *Thread
			for _, c := range w.threads {
				if visited[c.id] || (w.seqOnly && c.id != 0) {
					continue
				}
				if t == nil || w.prio(c) < w.prio(t) {
					t = c
				}
			}
			if t == nil {
				break
			}
			visited[t.id] = true
			t.round = r
			t.running = t.spawned
			w.walkThread(t)
		}
	}
	// observer pass
	w.observe = true
	quiescent := Not(w.crashed)
	for i := 0; i < len(w.threads); i++ {
		t := w.threads[i]
		t.round = w.R
		t.running = False
		t.canmove = False
		if w.seqOnly && t.id != 0 {
			// -seq: the goroutines the harness spawned are not encoded; they have not run when the harness ends
			// (claims are the harness's inline assertions only), so the final state is never quiescent if one exists
			t.canmove = t.spawned
			quiescent = And(quiescent, Not(t.spawned))
			continue
		}
		w.walkThread(t)
		// a thread that has not been spawned cannot move
		quiescent = And(quiescent, Not(And(t.spawned, t.canmove)), Not(t.truncated))
	}
	w.observe = false
	// final-state predicates
	obs := &Thread{w: w, id: len(w.threads), ops: map[int]*opState{}, spawned: True, alone: true, running: True, key: mkKey(0, -2, 0, 0), name: "observer", truncated: False, finished: False}
	w.addReach("quiescent", quiescent)
	for i, f := range w.atQuiesce {
		for _, a := range f.alts {
			if a.fn == nil {
				continue
			}
			fr := w.newFrame(obs, a, nil, mkKey(obs.key, 1000+i, 0, 0))
			fr.finalGuard = quiescent
			w.execFunc(obs, fr, nil, True)
		}
	}
	for i, f := range w.atCut {
		for _, a := range f.alts {
			if a.fn == nil {
				continue
			}
			fr := w.newFrame(obs, a, nil, mkKey(obs.key, 2000+i, 0, 0))
			fr.finalGuard = Not(w.crashed)
			w.execFunc(obs, fr, nil, True)
		}
	}
	w.addViol("no-crash", w.crashed, "")
}

func (w *W) walkThread(t *Thread) {
	w.curThread = t
	t.truncated = False
	if t.id == 0 {
		w.prologue = w.hasPrologue
	}
	if t.id == 0 && w.entryPkg != nil && w.entryPkg.Func("init") != nil {
		// package initialisers of the repository's packages (dependencies' are skipped, see intrinsic())
		ifr := w.newFrame(t, FAlt{g: True, fn: w.entryPkg.Func("init")}, nil, mkKey(0, -3, 0, 0))
		_, _, pG, _ := w.execFunc(t, ifr, nil, True)
		if !w.observe {
			w.crash(pG, "panic in package init")
		}
	}
	if t.spawned.IsFalse() {
		t.finished = False
		return
	}
	fr := w.newFrame(t, t.fn, nil, t.key)
	_, retG, panicG, _ := w.execFunc(t, fr, t.args, t.spawned)
	t.finished = retG
	if !w.observe {
		w.crash(panicG, fmt.Sprintf("uncaught panic in goroutine %d (%s)", t.id, t.name))
	}
}

func sortedKeys(m map[string]bool) []string {
	var ks []string
	for k := range m {
		ks = append(ks, k)
	}
	sort.Strings(ks)
	return ks
}

func (w *W) siteID(x ssa.Instruction) int {
	if id, ok := w.siteIDs[x]; ok {
		return id
	}
	w.siteIDs[x] = len(w.siteIDs) + 1
	return w.siteIDs[x]
}

func (w *W) spawnCap(x *ssa.Go, fn *ssa.Function) int {
	name := fn.String() + "@" + w.pos(x.Pos())
	for k, v := range w.spawnOverride {
		if strings.Contains(name, k) {
			return v
		}
	}
	return 1
}

func (w *W) noteSpawnCap(x *ssa.Go, fn *ssa.Function, g *Term) {
	if g.IsFalse() {
		return
	}
	name := "spawn-cap:" + fn.String() + "@" + w.pos(x.Pos())
	if old, ok := w.spawnTrunc[name]; ok {
		w.spawnTrunc[name] = Or(old, g)
	} else {
		w.spawnTrunc[name] = g
	}
}

// hasRecover reports whether fn defers a function that calls recover().
func (w *W) hasRecover(fn *ssa.Function) bool {
	if v, ok := w.recoverFns[fn]; ok {
		return v
	}
	res := false
	for _, b := range fn.Blocks {
		for _, ins := range b.Instrs {
			d, ok := ins.(*ssa.Defer)
			if !ok {
				continue
			}
			var callee *ssa.Function
			switch v := d.Call.Value.(type) {
			case *ssa.MakeClosure:
				callee = v.Fn.(*ssa.Function)
			case *ssa.Function:
				callee = v
			}
			if callee == nil {
				continue
			}
			for _, cb := range callee.Blocks {
				for _, ci := range cb.Instrs {
					if c, ok := ci.(*ssa.Call); ok {
						if bi, ok := c.Call.Value.(*ssa.Builtin); ok && bi.Name() == "recover" {
							res = true
						}
					}
				}
			}
		}
	}
	w.recoverFns[fn] = res
	return res
}

func (w *W) recordAccess(t *Thread, o opSpec) {
	if w.access == nil || len(o.accCells) == 0 || !w.othersExist(t) {
		return
	}
	for i, ck := range o.accCells {
		ca := w.access[ck]
		if ca == nil {
			ca = &cellAccess{seen: map[string]bool{}, syncThr: map[int]byte{}}
			w.access[ck] = ca
			w.accessName[ck] = o.accNames[i]
		}
		if o.syncCell {
			if o.write {
				ca.written = true
				ca.syncThr[t.id] = 'w'
			} else if ca.syncThr[t.id] == 0 {
				ca.syncThr[t.id] = 'r'
			}
			continue
		}
		own := i < len(o.accOwn) && o.accOwn[i]
		if o.write {
			// any write while other goroutines exist disqualifies the cell from "frozen" (even a write by the
			// allocating goroutine before publication: the same goroutine may have read the cell earlier)
			ca.written = true
		}
		if own || (i < len(o.accNoRace) && o.accNoRace[i]) {
			continue
		}
		sig := fmt.Sprint(t.id, o.write, t.held)
		if !ca.seen[sig] {
			ca.seen[sig] = true
			lk := map[string]byte{}
			for k, v := range t.held {
				lk[k] = v
			}
			ca.recs = append(ca.recs, accRec{t.id, o.write, lk})
		}
	}
}

func (o opSpec) with(eff func(exec *Term) Value) opSpec {
	o.effect = eff
	return o
}

func (w *W) prio(t *Thread) int {
	if t.id == 0 {
		return -1
	}
	for i, p := range w.orderFirst {
		if p != "" && strings.Contains(t.name, p) {
			return i
		}
	}
	return len(w.orderFirst) + 1
}

// readOnlyOp: operations that only observe shared state (a loop condition evaluated once more beyond the
// unwinding bound may perform them; the first operation that is not read-only puts the state outside the bound).
func readOnlyOp(o opSpec) bool {
	if o.write && o.kind != "RLock" && o.kind != "RUnlock" {
		return false
	}
	switch {
	case strings.HasSuffix(o.kind, ".Load"), o.kind == "load", o.kind == "RLock", o.kind == "RUnlock", o.kind == "chanlen", o.kind == "ctx.Err",
		o.kind == "nondet", o.kind == "reach", o.kind == "assume", strings.HasPrefix(o.kind, "assert"), o.kind == "time.Now":
		return true
	}
	return false
}

func (w *W) noteLoopTrunc(name string, g *Term) {
	if name == "" || g.IsFalse() {
		return
	}
	if old, ok := w.loopsTruncated[name]; ok {
		w.loopsTruncated[name] = Or(old, g)
	} else {
		w.loopsTruncated[name] = g
	}
}
