package main

import (
	"bufio"
	"bytes"
	"context"
	"fmt"
	"os"
	"os/exec"
	"path/filepath"
	"sort"
	"strconv"
	"strings"
	"sync"
	"time"
)

type query struct {
	kind   string // "viol", "reach", "loop"
	id     string
	pos    string
	goal   *Term
	assume *Term
	window string
}

func solverCmd(solver string, timeout int, file string) *exec.Cmd {
	switch solver {
	case "z3":
		return exec.Command("/usr/bin/z3", fmt.Sprintf("-T:%d", timeout), file)
	case "cvc5":
		return exec.Command("cvc5", "--produce-models", fmt.Sprintf("--tlimit=%d", timeout*1000), file)
	}
	return exec.Command("z3-new", fmt.Sprintf("-T:%d", timeout), file)
}

func hasUF(t *Term, seen map[int]bool) bool {
	stack := []*Term{t}
	for len(stack) > 0 {
		x := stack[len(stack)-1]
		stack = stack[:len(stack)-1]
		if seen[x.id] {
			continue
		}
		seen[x.id] = true
		if x.op == OUF {
			return true
		}
		stack = append(stack, x.args...)
	}
	return false
}

// runQuery decides assume ∧ goal; returns verdict, model, stats.
// Case splitting (-split): the vNondetRange choices of the harness, in program order. A query whose DAG is large is
// decided per value of the next choice: the assignment is substituted and the formula rebuilt through the
// simplifying constructors (most of it folds away), recursively; the solver decides the leaves. sat if one case is
// sat, unsat if all are unsat, unknown otherwise.
type splitChoice struct{ opts []map[string]*Term }

var (
	splitMode    bool
	splitChoices []splitChoice
	splitMinSize = 20000
)

func runQuery(q query, solver string, timeout int, dir string, idx int) (string, map[string]uint64, map[int]uint64, int, int, string) {
	if !splitMode || len(splitChoices) == 0 {
		return runQuery1(q, solver, timeout, dir, idx)
	}
	cases, nodes, vars := 0, 0, 0
	var rec func(assume, goal *Term, depth int, asg map[string]uint64) (string, map[string]uint64, map[int]uint64, string)
	rec = func(assume, goal *Term, depth int, asg map[string]uint64) (string, map[string]uint64, map[int]uint64, string) {
		if goal.IsFalse() || assume.IsFalse() {
			return "unsat", nil, nil, "trivial"
		}
		if depth >= len(splitChoices) || dagSize(assume, goal) < splitMinSize {
			cases++
			q2 := q
			q2.assume, q2.goal = assume, goal
			v, m, nv, n, nvars, d := runQuery1(q2, solver, timeout, dir, idx*1000+cases)
			nodes += n
			vars += nvars
			if v == "sat" {
				if m == nil {
					m = map[string]uint64{}
				}
				for k, x := range asg {
					m[k] = x
				}
			}
			return v, m, nv, d
		}
		worst, wd := "unsat", ""
		for _, o := range splitChoices[depth].opts {
			memo := map[int]*Term{}
			a2 := subst(assume, o, memo)
			g2 := subst(goal, o, memo)
			asg2 := map[string]uint64{}
			for k, x := range asg {
				asg2[k] = x
			}
			for k, x := range o {
				asg2[k] = x.val
			}
			v, m, nv, d := rec(a2, g2, depth+1, asg2)
			if v == "sat" {
				return v, m, nv, d
			}
			if v != "unsat" {
				worst, wd = v, d
			}
		}
		return worst, nil, nil, wd
	}
	v, m, nv, d := rec(q.assume, q.goal, 0, map[string]uint64{})
	return v, m, nv, nodes, vars, fmt.Sprintf("%s; case split: %d solver calls", d, cases)
}

func runQuery1(q query, solver string, timeout int, dir string, idx int) (string, map[string]uint64, map[int]uint64, int, int, string) {
	if q.goal.IsFalse() {
		return "unsat", nil, nil, 0, 0, "trivial"
	}
	p := newPrinter()
	a := p.ref(q.assume)
	g := p.ref(q.goal)
	logic := "QF_BV"
	if len(p.ufs) > 0 {
		logic = "QF_UFBV"
	}
	var sb strings.Builder
	fmt.Fprintf(&sb, "(set-logic %s)\n(set-option :produce-models true)\n", logic)
	sb.WriteString(p.sb.String())
	fmt.Fprintf(&sb, "(assert %s)\n(assert %s)\n(check-sat)\n", a, g)
	// values: all variables and all UF application nodes
	var names []string
	for v := range p.vars {
		names = append(names, v)
	}
	sort.Strings(names)
	var ufNodes []int
	for id, nm := range p.done {
		if strings.HasPrefix(nm, "n") {
			ufNodes = append(ufNodes, id)
		}
	}
	_ = ufNodes
	for i := 0; i < len(names); i += 200 {
		j := i + 200
		if j > len(names) {
			j = len(names)
		}
		fmt.Fprintf(&sb, "(get-value (%s))\n", strings.Join(names[i:j], " "))
	}
	ufIDs := []int{}
	for id := range p.ufApps {
		ufIDs = append(ufIDs, id)
	}
	sort.Ints(ufIDs)
	for _, id := range ufIDs {
		fmt.Fprintf(&sb, "(get-value (n%d))\n", id)
	}
	file := filepath.Join(dir, fmt.Sprintf("q%03d_%s.smt2", idx, sanitize(q.id)))
	os.WriteFile(file, []byte(sb.String()), 0644)
	solvers := []string{solver}
	if solver == "portfolio" {
		solvers = []string{"cvc5", "z3-new"}
		// z3 gets an explicit bit-blasting tactic, which is 2-3x faster than its default on these formulas
		z := strings.Replace(sb.String(), "(check-sat)", "(check-sat-using (then simplify propagate-values solve-eqs simplify bit-blast aig sat))", 1)
		os.WriteFile(file+".z3", []byte(z), 0644)
	}
	type sres struct {
		verdict, detail string
		out             []byte
		solver          string
	}
	ctx, cancel := context.WithTimeout(context.Background(), time.Duration(timeout+10)*time.Second)
	defer cancel()
	ch := make(chan sres, len(solvers))
	for _, sv := range solvers {
		go func(sv string) {
			fl := file
			if solver == "portfolio" && sv == "z3-new" {
				fl = file + ".z3"
			}
			cmd := solverCmd(sv, timeout, fl)
			c2 := exec.CommandContext(ctx, cmd.Path, cmd.Args[1:]...)
			outb, _ := c2.CombinedOutput()
			v, d := classify(outb, ctx.Err() != nil)
			ch <- sres{v, d, outb, sv}
		}(sv)
	}
	var best sres
	for range solvers {
		r := <-ch
		if r.verdict == "sat" || r.verdict == "unsat" {
			best = r
			cancel()
			break
		}
		if best.verdict == "" || best.verdict == "unknown" {
			best = r
		}
	}
	verdict, detail, outb := best.verdict, best.detail, best.out
	if detail == "" {
		detail = best.solver
	}
	var model map[string]uint64
	var nodeVals map[int]uint64
	if verdict == "sat" {
		model, nodeVals = parseModel(outb)
	}
	return verdict, model, nodeVals, p.n, len(p.vars), detail
}

// classify interprets solver output; any (error line other than "no model" after unsat makes the answer inconclusive.
func classify(outb []byte, timedOut bool) (string, string) {
	lines := strings.Split(string(outb), "\n")
	verdict := strings.TrimSpace(lines[0])
	detail := ""
	switch verdict {
	case "unsat":
		for _, l := range lines[1:] {
			if strings.Contains(l, "(error") && !strings.Contains(l, "model is not available") && !strings.Contains(l, "annot get") && !strings.Contains(l, "unless immediately preceded by SAT") {
				return "error", l
			}
		}
	case "sat":
		if bytes.Contains(outb, []byte("(error")) {
			return "error", firstError(outb)
		}
	case "timeout", "unknown":
		verdict = "unknown"
	default:
		if timedOut || strings.Contains(verdict, "interrupted") || verdict == "" {
			return "unknown", "timeout"
		}
		detail = verdict
		verdict = "error"
	}
	return verdict, detail
}

func firstError(out []byte) string {
	sc := bufio.NewScanner(bytes.NewReader(out))
	for sc.Scan() {
		if strings.Contains(sc.Text(), "(error") {
			return sc.Text()
		}
	}
	return ""
}

// parseModel reads (get-value) answers: ((name value) ...)
func parseModel(out []byte) (map[string]uint64, map[int]uint64) {
	m := map[string]uint64{}
	nodes := map[int]uint64{}
	s := string(out)
	i := 0
	for {
		j := strings.Index(s[i:], "(")
		if j < 0 {
			break
		}
		i += j + 1
		// read token name
		k := i
		for k < len(s) && s[k] != ' ' && s[k] != ')' && s[k] != '(' && s[k] != '\n' {
			k++
		}
		name := s[i:k]
		if name == "" || k >= len(s) || s[k] != ' ' {
			continue
		}
		rest := s[k+1:]
		var val uint64
		ok := false
		switch {
		case strings.HasPrefix(rest, "true"):
			val, ok = 1, true
		case strings.HasPrefix(rest, "false"):
			val, ok = 0, true
		case strings.HasPrefix(rest, "#x"):
			e := 2
			for e < len(rest) && isHex(rest[e]) {
				e++
			}
			v, err := strconv.ParseUint(rest[2:e], 16, 64)
			val, ok = v, err == nil
		case strings.HasPrefix(rest, "#b"):
			e := 2
			for e < len(rest) && (rest[e] == '0' || rest[e] == '1') {
				e++
			}
			v, err := strconv.ParseUint(rest[2:e], 2, 64)
			val, ok = v, err == nil
		case strings.HasPrefix(rest, "(_ bv"):
			e := 5
			for e < len(rest) && rest[e] >= '0' && rest[e] <= '9' {
				e++
			}
			v, err := strconv.ParseUint(rest[5:e], 10, 64)
			val, ok = v, err == nil
		}
		if !ok {
			continue
		}
		if len(name) > 1 && name[0] == 'n' {
			if id, err := strconv.Atoi(name[1:]); err == nil {
				nodes[id] = val
				continue
			}
		}
		m[name] = val
	}
	return m, nodes
}

func isHex(c byte) bool {
	return c >= '0' && c <= '9' || c >= 'a' && c <= 'f' || c >= 'A' && c <= 'F'
}

func (w *W) solveAll(res *Result, solver string, timeout, par int, only, keep string, noloops bool) {
	dir := keep
	if dir == "" {
		d, err := os.MkdirTemp("/var/tmp", "gobmc-smt-")
		if err != nil {
			panic(err)
		}
		dir = d
		defer os.RemoveAll(d)
	} else {
		os.MkdirAll(dir, 0755)
	}
	onlySet := map[string]bool{}
	for _, s := range strings.Split(only, ",") {
		if s != "" {
			onlySet[s] = true
		}
	}
	var qs []query
	for _, id := range w.violOrd {
		if len(onlySet) > 0 && !onlySet[id] {
			continue
		}
		goal := w.viol[id]
		// known-finding windows: residual query excludes all windows of this obligation, plus one query per window
		var wins []*windowSpec
		for _, ws := range w.windows {
			if ws.Obligation == id {
				wins = append(wins, ws)
			}
		}
		base := w.assumes
		if id != "no-crash" {
			// executions in which the process panics are the business of the no-crash obligation
			goal = And(Not(w.crashed), goal)
		}
		if len(wins) == 0 {
			qs = append(qs, query{kind: "viol", id: id, pos: w.violPos[id], goal: goal, assume: base})
			continue
		}
		residual := base
		for _, ws := range wins {
			residual = And(residual, Not(ws.hit))
			qs = append(qs, query{kind: "viol", id: id, pos: w.violPos[id], goal: goal, assume: And(base, ws.hit), window: ws.Name})
		}
		qs = append(qs, query{kind: "viol", id: id, pos: w.violPos[id], goal: goal, assume: residual, window: "residual"})
	}
	if os.Getenv("GOBMC_CRASHSPLIT") != "" {
		for i, cr := range w.crashes {
			if cr.id == "crash" {
				qs = append(qs, query{kind: "viol", id: fmt.Sprintf("crash%d:%s", i, cr.pos), goal: cr.cond, assume: w.assumes})
			}
		}
	}
	for _, id := range w.reachOrd {
		if len(onlySet) > 0 && !onlySet["reach:"+id] && !onlySet["reach"] {
			continue
		}
		qs = append(qs, query{kind: "reach", id: id, goal: w.reach[id], assume: And(w.assumes, Not(w.crashed))})
	}
	var loopNames []string
	for n := range w.loopIters {
		loopNames = append(loopNames, n)
	}
	sort.Strings(loopNames)
	for n, tg := range w.spawnTrunc {
		w.loopsTruncated[n] = tg
		w.loopIters[n] = 0
		loopNames = append(loopNames, n)
	}
	sort.Strings(loopNames)
	for _, n := range loopNames {
		if tg, ok := w.loopsTruncated[n]; ok && !noloops && len(onlySet) == 0 {
			qs = append(qs, query{kind: "loop", id: n, goal: tg, assume: And(w.assumes, Not(w.crashed))})
		}
	}
	type ans struct {
		verdict string
		model   map[string]uint64
		nodes   map[int]uint64
		n, vars int
		detail  string
		dt      float64
	}
	answers := make([]ans, len(qs))
	solved := make([]bool, len(qs))
	runOne := func(q query, idx int) ans {
		t0 := time.Now()
		v, m, nv, n, vars, d := runQuery(q, solver, timeout, dir, idx)
		return ans{v, m, nv, n, vars, d, time.Since(t0).Seconds()}
	}
	var wg sync.WaitGroup
	sem := make(chan struct{}, par)
	var mu sync.Mutex
	// group 1: all ordinary obligations of the harness as one disjunction (unsat discharges them all at once;
	// sat: the model tells which ones are violated, those are recorded and the rest is asked again)
	wg.Add(1)
	go func() {
		defer wg.Done()
		sem <- struct{}{}
		defer func() { <-sem }()
		var grp []int
		for i, q := range qs {
			if q.kind == "viol" && q.window == "" && !q.goal.IsFalse() {
				grp = append(grp, i)
			}
		}
		for round := 0; len(grp) > 1 && round < 6; round++ {
			goal := False
			for _, i := range grp {
				goal = Or(goal, qs[i].goal)
			}
			a := runOne(query{kind: "viol", id: fmt.Sprintf("group%d", round), goal: goal, assume: qs[grp[0]].assume}, 900+round)
			if a.verdict == "unsat" {
				mu.Lock()
				for _, i := range grp {
					answers[i] = ans{verdict: "unsat", n: a.n, vars: a.vars, detail: a.detail + " (decided jointly with " + fmt.Sprint(len(grp)-1) + " other obligations)", dt: a.dt / float64(len(grp))}
					solved[i] = true
				}
				mu.Unlock()
				return
			}
			if a.verdict != "sat" {
				return // inconclusive jointly: fall back to individual queries
			}
			ev := newEvaluator(a.model)
			for id, v := range a.nodes {
				ev.memo[id] = v
			}
			var rest []int
			mu.Lock()
			for _, i := range grp {
				if ev.eval(qs[i].goal) != 0 {
					answers[i] = ans{verdict: "sat", model: a.model, nodes: a.nodes, n: a.n, vars: a.vars, detail: a.detail, dt: a.dt}
					solved[i] = true
				} else {
					rest = append(rest, i)
				}
			}
			mu.Unlock()
			if len(rest) == len(grp) {
				return
			}
			grp = rest
		}
	}()
	// group 2: all reachability witnesses at once (they are usually co-satisfiable)
	wg.Add(1)
	go func() {
		defer wg.Done()
		sem <- struct{}{}
		defer func() { <-sem }()
		var grp []int
		goal := True
		for i, q := range qs {
			if q.kind == "reach" {
				grp = append(grp, i)
				goal = And(goal, q.goal)
			}
		}
		if len(grp) < 2 {
			return
		}
		a := runOne(query{kind: "reach", id: "reach-all", goal: goal, assume: qs[grp[0]].assume}, 950)
		if a.verdict == "sat" {
			mu.Lock()
			for _, i := range grp {
				answers[i] = ans{verdict: "sat", n: a.n, vars: a.vars, detail: a.detail + " (jointly)", dt: a.dt / float64(len(grp))}
				solved[i] = true
			}
			mu.Unlock()
		}
	}()
	// group 3: unwinding assertions and spawn caps as one disjunction
	wg.Add(1)
	go func() {
		defer wg.Done()
		sem <- struct{}{}
		defer func() { <-sem }()
		var grp []int
		goal := False
		for i, q := range qs {
			if q.kind == "loop" {
				grp = append(grp, i)
				goal = Or(goal, q.goal)
			}
		}
		if len(grp) < 2 {
			return
		}
		a := runOne(query{kind: "loop", id: "loops-any", goal: goal, assume: qs[grp[0]].assume}, 960)
		if a.verdict == "unsat" {
			mu.Lock()
			for _, i := range grp {
				answers[i] = ans{verdict: "unsat", n: a.n, vars: a.vars, detail: a.detail + " (jointly)", dt: a.dt / float64(len(grp))}
				solved[i] = true
			}
			mu.Unlock()
		} else if a.verdict == "sat" {
			ev := newEvaluator(a.model)
			for id, v := range a.nodes {
				ev.memo[id] = v
			}
			mu.Lock()
			for _, i := range grp {
				if ev.eval(qs[i].goal) != 0 {
					answers[i] = ans{verdict: "sat", n: a.n, vars: a.vars, detail: a.detail, dt: a.dt}
					solved[i] = true
				} else if len(grp) > 6 {
					answers[i] = ans{verdict: "unknown", detail: "not checked individually"}
					solved[i] = true
				}
			}
			mu.Unlock()
		}
	}()
	// individual queries that the groups do not cover run alongside
	for i := range qs {
		q := qs[i]
		inGroup := (q.kind == "viol" && q.window == "" && !q.goal.IsFalse()) || q.kind == "reach" || q.kind == "loop"
		if inGroup {
			continue
		}
		wg.Add(1)
		go func(i int) {
			defer wg.Done()
			sem <- struct{}{}
			defer func() { <-sem }()
			a := runOne(qs[i], i)
			mu.Lock()
			answers[i] = a
			solved[i] = true
			mu.Unlock()
		}(i)
	}
	wg.Wait()
	// whatever the groups left open is asked individually
	for i := range qs {
		if solved[i] {
			continue
		}
		wg.Add(1)
		go func(i int) {
			defer wg.Done()
			sem <- struct{}{}
			defer func() { <-sem }()
			a := runOne(qs[i], i)
			mu.Lock()
			answers[i] = a
			mu.Unlock()
		}(i)
	}
	wg.Wait()
	loopVerdict := map[string]string{}
	for i, q := range qs {
		a := answers[i]
		ob := Obligation{ID: q.id, Pos: q.pos, Verdict: a.verdict, TimeS: a.dt, Nodes: a.n, Vars: a.vars, Detail: a.detail, Window: q.window}
		if a.detail == "trivial" {
			ob.Trivial = true
			ob.Detail = "simplified to false during encoding"
		}
		switch q.kind {
		case "viol":
			if a.verdict == "sat" {
				ob.Cex = w.extractCex(a.model, a.nodes)
			}
			res.Obligations = append(res.Obligations, ob)
		case "reach":
			res.Reach = append(res.Reach, ob)
		case "loop":
			switch a.verdict {
			case "unsat":
				loopVerdict[q.id] = "holds"
			case "sat":
				loopVerdict[q.id] = "fails"
			default:
				loopVerdict[q.id] = "unknown"
				if a.detail == "not checked individually" {
					loopVerdict[q.id] = "not checked individually (some other bound of this harness is reachable)"
				}
			}
		}
	}
	for _, n := range loopNames {
		lr := LoopRes{Name: n, Iters: w.loopIters[n] + 1, Truncated: "holds"}
		if _, ok := w.loopsTruncated[n]; ok {
			lr.Iters = w.loopIters[n]
			lr.Truncated = loopVerdict[n]
			if lr.Truncated == "" {
				lr.Truncated = "not checked"
			}
		}
		res.Loops = append(res.Loops, lr)
	}
}

func (w *W) extractCex(model map[string]uint64, nodes map[int]uint64) *Cex {
	ev := newEvaluator(model)
	for id, v := range nodes {
		ev.memo[id] = v
	}
	c := &Cex{Nondets: map[string]string{}}
	for _, v0 := range w.nondets {
		val := ev.eval(v0)
		v := &Term{name: w.ndName(v0), w: v0.w}
		switch v.w {
		case 0:
			c.Nondets[v.name] = strconv.FormatBool(val != 0)
		case 64:
			c.Nondets[v.name] = strconv.FormatInt(int64(val), 10)
		default:
			c.Nondets[v.name] = strconv.FormatUint(val, 10)
		}
		var tid int
		var kind string
		if parts := strings.Split(v.name, "_"); len(parts) >= 3 {
			kind = parts[1]
			fmt.Sscanf(parts[2], "t%d", &tid)
		}
		if v.w == 32 {
			// strings: literal symbols print as themselves, fresh symbols as a unique token
			if s, ok := strNames[val]; ok {
				c.Nondets[v.name] = s
			} else {
				c.Nondets[v.name] = fmt.Sprintf("s#%d", val)
			}
		}
		_ = tid
		_ = kind
	}
	for k, v := range model {
		if strings.HasPrefix(k, "clk_") || strings.HasPrefix(k, "pool_") || strings.HasPrefix(k, "sel_") || k == "nd_numcpu" {
			c.Nondets[k] = strconv.FormatUint(v, 10)
		}
	}
	last := -1
	for _, e := range w.trace {
		if e.nondet != nil {
			if ev.eval(e.exec) != 0 {
				nm := w.ndName(e.nondet)
				kind := ""
				if parts := strings.Split(nm, "_"); len(parts) >= 3 {
					kind = parts[1]
				}
				c.NondetSeq = append(c.NondetSeq, NondetVal{Name: nm, Thread: e.thread, Kind: kind, Value: c.Nondets[nm], Pos: e.pos})
			}
			continue
		}
		if e.thread < len(w.threads) && ev.eval(e.exec) != 0 {
			ts := TraceStep{Thread: e.thread, Round: e.round, Kind: e.kind, Pos: e.pos, Fn: e.fn}
			for _, sp := range e.spawn {
				if ev.eval(sp.take) != 0 {
					ts.Spawn = sp.thread
				}
			}
			c.Trace = append(c.Trace, ts)
			if e.thread == last {
				c.Bursts[len(c.Bursts)-1][1]++
			} else {
				c.Bursts = append(c.Bursts, [2]int{e.thread, 1})
				last = e.thread
			}
		}
	}
	for _, e := range w.standing {
		if ev.eval(e.exec) != 0 {
			st := "can run"
			if ev.eval(e.blocked) != 0 {
				st = "blocked"
			}
			c.Final = append(c.Final, fmt.Sprintf("T%d stands before %s at %s (%s) [%s]", e.thread, e.kind, e.pos, e.fn, st))
		}
	}
	for _, t := range w.threads {
		if ev.eval(t.spawned) == 0 {
			continue
		}
		if ev.eval(t.finished) != 0 {
			c.Final = append(c.Final, fmt.Sprintf("T%d finished", t.id))
		}
		if ev.eval(t.truncated) != 0 {
			c.Final = append(c.Final, fmt.Sprintf("T%d beyond an unwinding/spawn bound", t.id))
		}
	}
	for _, cr := range w.crashes {
		if ev.eval(cr.cond) != 0 {
			c.Crashes = append(c.Crashes, cr.pos)
		}
	}
	for _, ws := range w.windows {
		if ws.hit != nil && ev.eval(ws.hit) != 0 {
			c.Windows = append(c.Windows, ws.Name)
		}
	}
	return c
}
