package main

import (
	"fmt"
	"sort"
	"strings"
	"sync"
)

// Hash-consed QF_BV/Bool terms with eager simplification.
type Op int

const (
	OConst Op = iota
	OVar
	ONot
	OAnd
	OOr
	OIte
	OEq
	OAdd
	OSub
	OMul
	OUlt
	OSlt
	OBVAnd
	OBVOr
	OBVXor
	OShl
	OLshr
	OAshr
	OZext
	OSext
	OExtract
	OSdiv
	OUdiv
	OSrem
	OUrem
	OUF // uninterpreted function application (name, args)
)

type Term struct {
	op   Op
	w    int // 0 = Bool
	args []*Term
	val  uint64
	name string
	id   int
}

var (
	tpool  = map[string]*Term{}
	tcount int
	True   = mkConst(0, 1)
	False  = mkConst(0, 0)
)

func mask(w int) uint64 {
	if w >= 64 {
		return ^uint64(0)
	}
	return (uint64(1) << uint(w)) - 1
}

var internMu sync.Mutex

func intern(t *Term) *Term {
	internMu.Lock()
	defer internMu.Unlock()
	var sb strings.Builder
	fmt.Fprintf(&sb, "%d:%d:%d:%s", t.op, t.w, t.val, t.name)
	for _, a := range t.args {
		fmt.Fprintf(&sb, ",%d", a.id)
	}
	k := sb.String()
	if x, ok := tpool[k]; ok {
		return x
	}
	tcount++
	t.id = tcount
	tpool[k] = t
	return t
}

func mkConst(w int, v uint64) *Term {
	if w > 0 {
		v &= mask(w)
	} else if v != 0 {
		v = 1
	}
	return intern(&Term{op: OConst, w: w, val: v})
}
func BV(w int, v uint64) *Term { return mkConst(w, v) }
func Bool(b bool) *Term {
	if b {
		return True
	}
	return False
}
func Var(name string, w int) *Term { return intern(&Term{op: OVar, w: w, name: name}) }
func (t *Term) IsConst() bool      { return t.op == OConst }
func (t *Term) IsTrue() bool       { return t == True }
func (t *Term) IsFalse() bool      { return t == False }

func Not(a *Term) *Term {
	if a.w != 0 {
		panic("Not on bv")
	}
	if a.IsConst() {
		return Bool(a.val == 0)
	}
	if a.op == ONot {
		return a.args[0]
	}
	return intern(&Term{op: ONot, args: []*Term{a}})
}

const flattenLimit = 12

func nary(op Op, unit, zero *Term, xs []*Term) *Term {
	var flat []*Term
	seen := map[int]bool{}
	for _, x := range xs {
		if x.w != 0 {
			panic("bool op on bv")
		}
		if x == zero {
			return zero
		}
		if x == unit {
			continue
		}
		ys := []*Term{x}
		if x.op == op && len(x.args) <= flattenLimit {
			ys = x.args
		}
		for _, y := range ys {
			if !seen[y.id] {
				seen[y.id] = true
				flat = append(flat, y)
			}
		}
	}
	for _, y := range flat {
		if ny := Not(y); ny != y && seen[ny.id] {
			return zero
		}
	}
	if len(flat) == 0 {
		return unit
	}
	if len(flat) == 1 {
		return flat[0]
	}
	sort.Slice(flat, func(i, j int) bool { return flat[i].id < flat[j].id })
	return intern(&Term{op: op, args: flat})
}
func And(xs ...*Term) *Term    { return nary(OAnd, True, False, xs) }
func Or(xs ...*Term) *Term     { return nary(OOr, False, True, xs) }
func Implies(a, b *Term) *Term { return Or(Not(a), b) }

func Ite(c, a, b *Term) *Term {
	if a.w != b.w {
		panic(fmt.Sprintf("ite width mismatch %d %d", a.w, b.w))
	}
	if c.IsTrue() {
		return a
	}
	if c.IsFalse() {
		return b
	}
	if a == b {
		return a
	}
	if a.w == 0 {
		if a.IsTrue() && b.IsFalse() {
			return c
		}
		if a.IsFalse() && b.IsTrue() {
			return Not(c)
		}
		if a.IsTrue() {
			return Or(c, b)
		}
		if a.IsFalse() {
			return And(Not(c), b)
		}
		if b.IsTrue() {
			return Or(Not(c), a)
		}
		if b.IsFalse() {
			return And(c, a)
		}
	}
	if c.op == ONot {
		return Ite(c.args[0], b, a)
	}
	if b.op == OIte && b.args[0] == c {
		b = b.args[2]
	}
	if a.op == OIte && a.args[0] == c {
		a = a.args[1]
	}
	if a == b {
		return a
	}
	return intern(&Term{op: OIte, w: a.w, args: []*Term{c, a, b}})
}

func Eq(a, b *Term) *Term {
	if a.w != b.w {
		panic(fmt.Sprintf("eq width mismatch %d %d", a.w, b.w))
	}
	if a == b {
		return True
	}
	if a.IsConst() && b.IsConst() {
		return Bool(a.val == b.val)
	}
	if a.w == 0 {
		return Ite(a, b, Not(b))
	}
	if a.IsConst() {
		a, b = b, a
	}
	if b.IsConst() && a.op == OIte {
		if ls, ok := enumLeaves(a); ok {
			for i, v := range ls.vals {
				if v == b.val {
					return ls.conds[i]
				}
			}
			return False
		}
	}
	if a.id > b.id {
		a, b = b, a
	}
	return intern(&Term{op: OEq, args: []*Term{a, b}})
}

// iteDepth: depth of an ite tree whose leaves are constants; large if not such a tree.
func iteDepth(t *Term) int {
	switch t.op {
	case OConst:
		return 0
	case OIte:
		a, b := iteDepth(t.args[1]), iteDepth(t.args[2])
		if a < b {
			a = b
		}
		return a + 1
	}
	return 1000
}

// liftable reports whether t is an ite tree with few distinct constant leaves.
func liftable(t *Term) bool {
	if t.op != OIte {
		return false
	}
	_, ok := enumLeaves(t)
	return ok
}

const maxLeaves = 160

type leafSet struct {
	vals  []uint64
	conds []*Term
	ok    bool
}

var leafMemo = map[int]*leafSet{}

// enumLeaves returns, for an ite tree with constant leaves, the distinct values and the condition under
// which the term takes each of them (value-enumeration normal form); ok=false if it is not such a tree
// or has too many distinct values.
var leafMu sync.Mutex

func enumLeaves(t *Term) (*leafSet, bool) {
	leafMu.Lock()
	ls0, ok0 := leafMemo[t.id]
	leafMu.Unlock()
	if ok0 {
		return ls0, ls0.ok
	}
	ls := &leafSet{}
	switch t.op {
	case OConst:
		ls.vals, ls.conds, ls.ok = []uint64{t.val}, []*Term{True}, true
	case OIte:
		a, oka := enumLeaves(t.args[1])
		b, okb := enumLeaves(t.args[2])
		if oka && okb {
			c := t.args[0]
			idx := map[uint64]int{}
			add := func(v uint64, g *Term) {
				if g.IsFalse() {
					return
				}
				if i, ok := idx[v]; ok {
					ls.conds[i] = Or(ls.conds[i], g)
					return
				}
				idx[v] = len(ls.vals)
				ls.vals = append(ls.vals, v)
				ls.conds = append(ls.conds, g)
			}
			for i, v := range a.vals {
				add(v, And(c, a.conds[i]))
			}
			nc := Not(c)
			for i, v := range b.vals {
				add(v, And(nc, b.conds[i]))
			}
			ls.ok = len(ls.vals) <= maxLeaves
		}
	}
	leafMu.Lock()
	leafMemo[t.id] = ls
	leafMu.Unlock()
	return ls, ls.ok
}

// fromLeaves builds the chain ite(c1, v1, ite(c2, v2, ... vn)).
func fromLeaves(w int, vals []uint64, conds []*Term) *Term {
	if len(vals) == 0 {
		return mkConst(w, 0)
	}
	// merge equal values
	idx := map[uint64]int{}
	var vs []uint64
	var cs []*Term
	for i, v := range vals {
		if w > 0 {
			v &= mask(w)
		}
		if j, ok := idx[v]; ok {
			cs[j] = Or(cs[j], conds[i])
			continue
		}
		idx[v] = len(vs)
		vs = append(vs, v)
		cs = append(cs, conds[i])
	}
	r := mkConst(w, vs[len(vs)-1])
	for i := len(vs) - 2; i >= 0; i-- {
		r = Ite(cs[i], mkConst(w, vs[i]), r)
	}
	return r
}

func bin(op Op, a, b *Term, w int, f func(x, y uint64) uint64) *Term {
	if a.w != b.w {
		panic(fmt.Sprintf("binop width mismatch %d %d (op %d)", a.w, b.w, op))
	}
	if a.IsConst() && b.IsConst() {
		return mkConst(w, f(a.val, b.val))
	}
	// lift through ite trees with constant leaves so that sizes stay enumerable
	if (a.IsConst() || a.op == OIte) && (b.IsConst() || b.op == OIte) {
		la, oka := enumLeaves(a)
		lb, okb := enumLeaves(b)
		if oka && okb && len(la.vals)*len(lb.vals) <= 1024 {
			var vals []uint64
			var conds []*Term
			for i, x := range la.vals {
				for j, y := range lb.vals {
					g := And(la.conds[i], lb.conds[j])
					if g.IsFalse() {
						continue
					}
					vals = append(vals, f(x, y))
					conds = append(conds, g)
				}
			}
			if w == 0 {
				// Boolean result: the disjunction of the conditions under which it is true
				r := False
				for i, v := range vals {
					if v != 0 {
						r = Or(r, conds[i])
					}
				}
				return r
			}
			return fromLeaves(w, vals, conds)
		}
	}
	return intern(&Term{op: op, w: w, args: []*Term{a, b}})
}
func sext64(v uint64, w int) int64 {
	if w >= 64 {
		return int64(v)
	}
	if v&(1<<uint(w-1)) != 0 {
		return int64(v | ^mask(w))
	}
	return int64(v)
}
func Add(a, b *Term) *Term {
	if b.IsConst() && b.val == 0 {
		return a
	}
	if a.IsConst() && a.val == 0 {
		return b
	}
	// (x + c1) + c2
	if b.IsConst() && a.op == OAdd && a.args[1].IsConst() {
		return Add(a.args[0], mkConst(a.w, a.args[1].val+b.val))
	}
	if a.IsConst() && !b.IsConst() {
		a, b = b, a
	}
	return bin(OAdd, a, b, a.w, func(x, y uint64) uint64 { return x + y })
}
func Sub(a, b *Term) *Term {
	if b.IsConst() {
		return Add(a, mkConst(a.w, -b.val))
	}
	if a == b {
		return mkConst(a.w, 0)
	}
	return bin(OSub, a, b, a.w, func(x, y uint64) uint64 { return x - y })
}
func Mul(a, b *Term) *Term {
	if b.IsConst() && b.val == 1 {
		return a
	}
	if a.IsConst() && a.val == 1 {
		return b
	}
	return bin(OMul, a, b, a.w, func(x, y uint64) uint64 { return x * y })
}
func Sdiv(a, b *Term) *Term {
	w := a.w
	return bin(OSdiv, a, b, a.w, func(x, y uint64) uint64 {
		if y&mask(w) == 0 {
			return ^uint64(0)
		}
		return uint64(sext64(x, w) / sext64(y, w))
	})
}
func Udiv(a, b *Term) *Term {
	return bin(OUdiv, a, b, a.w, func(x, y uint64) uint64 {
		if y == 0 {
			return ^uint64(0)
		}
		return x / y
	})
}
func Srem(a, b *Term) *Term {
	w := a.w
	return bin(OSrem, a, b, a.w, func(x, y uint64) uint64 {
		if y&mask(w) == 0 {
			return x
		}
		return uint64(sext64(x, w) % sext64(y, w))
	})
}
func Urem(a, b *Term) *Term {
	return bin(OUrem, a, b, a.w, func(x, y uint64) uint64 {
		if y == 0 {
			return x
		}
		return x % y
	})
}
func BVAnd(a, b *Term) *Term {
	return bin(OBVAnd, a, b, a.w, func(x, y uint64) uint64 { return x & y })
}
func BVOr(a, b *Term) *Term { return bin(OBVOr, a, b, a.w, func(x, y uint64) uint64 { return x | y }) }
func BVXor(a, b *Term) *Term {
	return bin(OBVXor, a, b, a.w, func(x, y uint64) uint64 { return x ^ y })
}
func Shl(a, b *Term) *Term {
	w := a.w
	return bin(OShl, a, b, a.w, func(x, y uint64) uint64 {
		if y >= uint64(w) {
			return 0
		}
		return x << y
	})
}
func Lshr(a, b *Term) *Term {
	w := a.w
	return bin(OLshr, a, b, a.w, func(x, y uint64) uint64 {
		if y >= uint64(w) {
			return 0
		}
		return (x & mask(w)) >> y
	})
}
func Ashr(a, b *Term) *Term {
	w := a.w
	return bin(OAshr, a, b, a.w, func(x, y uint64) uint64 {
		s := sext64(x, w)
		if y >= uint64(w) {
			y = uint64(w) - 1
		}
		return uint64(s >> y)
	})
}
func Ult(a, b *Term) *Term {
	if a == b {
		return False
	}
	if b.IsConst() && b.val == 0 {
		return False
	}
	return bin(OUlt, a, b, 0, func(x, y uint64) uint64 {
		if x < y {
			return 1
		}
		return 0
	})
}
func Slt(a, b *Term) *Term {
	if a == b {
		return False
	}
	w := a.w
	return bin(OSlt, a, b, 0, func(x, y uint64) uint64 {
		if sext64(x, w) < sext64(y, w) {
			return 1
		}
		return 0
	})
}
func Zext(a *Term, w int) *Term {
	if a.w == w {
		return a
	}
	if a.IsConst() {
		return mkConst(w, a.val)
	}
	if ls, ok := enumLeaves(a); ok && a.op == OIte {
		return fromLeaves(w, ls.vals, ls.conds)
	}
	return intern(&Term{op: OZext, w: w, args: []*Term{a}})
}
func Sext(a *Term, w int) *Term {
	if a.w == w {
		return a
	}
	if a.IsConst() {
		return mkConst(w, uint64(sext64(a.val, a.w)))
	}
	if ls, ok := enumLeaves(a); ok && a.op == OIte {
		vals := make([]uint64, len(ls.vals))
		for i, v := range ls.vals {
			vals[i] = uint64(sext64(v, a.w))
		}
		return fromLeaves(w, vals, ls.conds)
	}
	return intern(&Term{op: OSext, w: w, args: []*Term{a}})
}
func Extract(a *Term, w int) *Term { // low w bits
	if a.w == w {
		return a
	}
	if a.IsConst() {
		return mkConst(w, a.val)
	}
	if ls, ok := enumLeaves(a); ok && a.op == OIte {
		return fromLeaves(w, ls.vals, ls.conds)
	}
	return intern(&Term{op: OExtract, w: w, args: []*Term{a}})
}
func UF(name string, w int, args ...*Term) *Term {
	return intern(&Term{op: OUF, w: w, name: name, args: args})
}

// maxConst returns the largest constant leaf of an ite tree (unsigned), ok=false if a leaf is not constant.
func maxConst(t *Term) (uint64, bool) {
	if ls, ok := enumLeaves(t); ok {
		var m uint64
		for _, v := range ls.vals {
			if v > m {
				m = v
			}
		}
		return m, true
	}
	switch t.op {
	case OConst:
		return t.val, true
	case OIte:
		a, ok1 := maxConst(t.args[1])
		b, ok2 := maxConst(t.args[2])
		if a < b {
			a = b
		}
		return a, ok1 && ok2
	}
	return 0, false
}

// ---- SMT-LIB printing (DAG with define-fun per shared node)
type printer struct {
	sb   strings.Builder
	done map[int]string
	vars map[string]int
	ufs  map[string]bool
	ufApps map[int]bool
	n    int
}

func newPrinter() *printer {
	return &printer{done: map[int]string{}, vars: map[string]int{}, ufs: map[string]bool{}, ufApps: map[int]bool{}}
}

func sortOf(w int) string {
	if w == 0 {
		return "Bool"
	}
	return fmt.Sprintf("(_ BitVec %d)", w)
}

func (p *printer) ref(t *Term) string {
	if s, ok := p.done[t.id]; ok {
		return s
	}
	// iterative post-order to avoid deep recursion
	type fr struct {
		t *Term
		i int
	}
	stack := []fr{{t, 0}}
	for len(stack) > 0 {
		top := &stack[len(stack)-1]
		if _, ok := p.done[top.t.id]; ok {
			stack = stack[:len(stack)-1]
			continue
		}
		if top.i < len(top.t.args) {
			a := top.t.args[top.i]
			top.i++
			if _, ok := p.done[a.id]; !ok {
				stack = append(stack, fr{a, 0})
			}
			continue
		}
		p.emit(top.t)
		stack = stack[:len(stack)-1]
	}
	return p.done[t.id]
}

func (p *printer) emit(t *Term) {
	var s string
	switch t.op {
	case OConst:
		if t.w == 0 {
			if t.val != 0 {
				s = "true"
			} else {
				s = "false"
			}
		} else {
			s = fmt.Sprintf("(_ bv%d %d)", t.val, t.w)
		}
		p.done[t.id] = s
		return
	case OVar:
		if _, ok := p.vars[t.name]; !ok {
			p.vars[t.name] = t.w
			fmt.Fprintf(&p.sb, "(declare-const %s %s)\n", t.name, sortOf(t.w))
		}
		p.done[t.id] = t.name
		return
	}
	as := make([]string, len(t.args))
	for i, a := range t.args {
		as[i] = p.done[a.id]
	}
	j := strings.Join(as, " ")
	var e string
	switch t.op {
	case ONot:
		e = "(not " + j + ")"
	case OAnd:
		e = "(and " + j + ")"
	case OOr:
		e = "(or " + j + ")"
	case OIte:
		e = "(ite " + j + ")"
	case OEq:
		e = "(= " + j + ")"
	case OAdd:
		e = "(bvadd " + j + ")"
	case OSub:
		e = "(bvsub " + j + ")"
	case OMul:
		e = "(bvmul " + j + ")"
	case OSdiv:
		e = "(bvsdiv " + j + ")"
	case OUdiv:
		e = "(bvudiv " + j + ")"
	case OSrem:
		e = "(bvsrem " + j + ")"
	case OUrem:
		e = "(bvurem " + j + ")"
	case OBVAnd:
		e = "(bvand " + j + ")"
	case OBVOr:
		e = "(bvor " + j + ")"
	case OBVXor:
		e = "(bvxor " + j + ")"
	case OShl:
		e = "(bvshl " + j + ")"
	case OLshr:
		e = "(bvlshr " + j + ")"
	case OAshr:
		e = "(bvashr " + j + ")"
	case OUlt:
		e = "(bvult " + j + ")"
	case OSlt:
		e = "(bvslt " + j + ")"
	case OZext:
		e = fmt.Sprintf("((_ zero_extend %d) %s)", t.w-t.args[0].w, j)
	case OSext:
		e = fmt.Sprintf("((_ sign_extend %d) %s)", t.w-t.args[0].w, j)
	case OExtract:
		e = fmt.Sprintf("((_ extract %d 0) %s)", t.w-1, j)
	case OUF:
		p.ufApps[t.id] = true
		if !p.ufs[t.name] {
			p.ufs[t.name] = true
			var ss []string
			for _, a := range t.args {
				ss = append(ss, sortOf(a.w))
			}
			fmt.Fprintf(&p.sb, "(declare-fun %s (%s) %s)\n", t.name, strings.Join(ss, " "), sortOf(t.w))
		}
		if len(t.args) == 0 {
			e = t.name
		} else {
			e = "(" + t.name + " " + j + ")"
		}
	default:
		panic("print op")
	}
	name := fmt.Sprintf("n%d", t.id)
	fmt.Fprintf(&p.sb, "(define-fun %s () %s %s)\n", name, sortOf(t.w), e)
	p.done[t.id] = name
	p.n++
}

// ---- concrete evaluation under a model (vars missing from the model default to 0/false)
type evaluator struct {
	model map[string]uint64
	memo  map[int]uint64
	ufs   map[string]uint64 // UF applications: name(args) -> value, filled from the model when available
}

func newEvaluator(m map[string]uint64) *evaluator {
	return &evaluator{model: m, memo: map[int]uint64{}, ufs: map[string]uint64{}}
}

func (e *evaluator) eval(t *Term) uint64 {
	if v, ok := e.memo[t.id]; ok {
		return v
	}
	type fr struct {
		t *Term
		i int
	}
	stack := []fr{{t, 0}}
	for len(stack) > 0 {
		top := &stack[len(stack)-1]
		if _, ok := e.memo[top.t.id]; ok {
			stack = stack[:len(stack)-1]
			continue
		}
		if top.i < len(top.t.args) {
			a := top.t.args[top.i]
			top.i++
			if _, ok := e.memo[a.id]; !ok {
				stack = append(stack, fr{a, 0})
			}
			continue
		}
		e.memo[top.t.id] = e.eval1(top.t)
		stack = stack[:len(stack)-1]
	}
	return e.memo[t.id]
}

func b2u(b bool) uint64 {
	if b {
		return 1
	}
	return 0
}

func (e *evaluator) eval1(t *Term) uint64 {
	a := make([]uint64, len(t.args))
	for i, x := range t.args {
		a[i] = e.memo[x.id]
	}
	m := mask(t.w)
	if t.w == 0 {
		m = 1
	}
	switch t.op {
	case OConst:
		return t.val
	case OVar:
		return e.model[t.name] & m
	case ONot:
		return 1 - a[0]
	case OAnd:
		for _, x := range a {
			if x == 0 {
				return 0
			}
		}
		return 1
	case OOr:
		for _, x := range a {
			if x != 0 {
				return 1
			}
		}
		return 0
	case OIte:
		if a[0] != 0 {
			return a[1]
		}
		return a[2]
	case OEq:
		return b2u(a[0] == a[1])
	case OAdd:
		return (a[0] + a[1]) & m
	case OSub:
		return (a[0] - a[1]) & m
	case OMul:
		return (a[0] * a[1]) & m
	case OBVAnd:
		return a[0] & a[1]
	case OBVOr:
		return a[0] | a[1]
	case OBVXor:
		return a[0] ^ a[1]
	case OUlt:
		return b2u(a[0] < a[1])
	case OSlt:
		return b2u(sext64(a[0], t.args[0].w) < sext64(a[1], t.args[0].w))
	case OZext:
		return a[0]
	case OSext:
		return uint64(sext64(a[0], t.args[0].w)) & m
	case OExtract:
		return a[0] & m
	case OShl:
		if a[1] >= uint64(t.w) {
			return 0
		}
		return (a[0] << a[1]) & m
	case OLshr:
		if a[1] >= uint64(t.w) {
			return 0
		}
		return a[0] >> a[1]
	case OAshr:
		y := a[1]
		if y >= uint64(t.w) {
			y = uint64(t.w) - 1
		}
		return uint64(sext64(a[0], t.w)>>y) & m
	case OSdiv:
		if a[1] == 0 {
			if sext64(a[0], t.w) < 0 {
				return 1
			}
			return m
		}
		return uint64(sext64(a[0], t.w)/sext64(a[1], t.w)) & m
	case OUdiv:
		if a[1] == 0 {
			return m
		}
		return a[0] / a[1]
	case OSrem:
		if a[1] == 0 {
			return a[0]
		}
		return uint64(sext64(a[0], t.w)%sext64(a[1], t.w)) & m
	case OUrem:
		if a[1] == 0 {
			return a[0]
		}
		return a[0] % a[1]
	case OUF:
		k := t.name
		for _, x := range a {
			k += fmt.Sprintf(",%d", x)
		}
		if v, ok := e.ufs[k]; ok {
			return v
		}
		// deterministic injective-ish default
		v := uint64(len(e.ufs)+1)<<16 | 0x8000
		e.ufs[k] = v & m
		return v & m
	}
	panic("eval op")
}

// String renders small terms for diagnostics.
func (t *Term) String() string {
	return t.str(4)
}
func (t *Term) str(d int) string {
	switch t.op {
	case OConst:
		return fmt.Sprintf("%d:%d", t.val, t.w)
	case OVar:
		return t.name
	}
	if d == 0 {
		return "…"
	}
	var as []string
	for _, a := range t.args {
		as = append(as, a.str(d-1))
	}
	return fmt.Sprintf("(op%d %s)", t.op, strings.Join(as, " "))
}

// badLeaves lists the non-constant leaves of an ite tree (diagnostics).
func badLeaves(t *Term, out map[int]*Term) {
	switch t.op {
	case OConst:
	case OIte:
		badLeaves(t.args[1], out)
		badLeaves(t.args[2], out)
	case OAdd, OSub, OSlt, OUlt, OSext, OZext, OExtract:
		n := len(out)
		for _, a := range t.args {
			badLeaves(a, out)
		}
		if len(out) == n {
			out[t.id] = t // all leaves constant, yet not folded: too many distinct values?
		}
	default:
		out[t.id] = t
	}
}

// sizeBound: for an allocation size term returns the largest plausible value (0..1<<20) and the condition
// under which the size is outside that range (negative or absurd: a run-time panic in Go).
func sizeBound(t *Term) (uint64, *Term, bool) {
	ls, ok := enumLeaves(t)
	if !ok {
		return 0, nil, false
	}
	var m uint64
	bad := False
	for i, v := range ls.vals {
		if v > 1<<20 {
			bad = Or(bad, ls.conds[i])
			continue
		}
		if v > m {
			m = v
		}
	}
	return m, bad, true
}

// subst rebuilds t with the Boolean/bit-vector variables in env replaced by constants, through the simplifying
// constructors (so that everything decided by the assignment folds away). memo is shared between calls that use
// the same env.
func subst(t *Term, env map[string]*Term, memo map[int]*Term) *Term {
	if r, ok := memo[t.id]; ok {
		return r
	}
	type fr struct {
		t *Term
		i int
	}
	stack := []fr{{t, 0}}
	for len(stack) > 0 {
		top := &stack[len(stack)-1]
		if _, ok := memo[top.t.id]; ok {
			stack = stack[:len(stack)-1]
			continue
		}
		if top.i < len(top.t.args) {
			a := top.t.args[top.i]
			top.i++
			if _, ok := memo[a.id]; !ok {
				stack = append(stack, fr{a, 0})
			}
			continue
		}
		x := top.t
		var r *Term
		switch x.op {
		case OConst:
			r = x
		case OVar:
			if v, ok := env[x.name]; ok {
				r = v
			} else {
				r = x
			}
		default:
			as := make([]*Term, len(x.args))
			same := true
			for i, a := range x.args {
				as[i] = memo[a.id]
				if as[i] != a {
					same = false
				}
			}
			if same {
				r = x
			} else {
				r = rebuild(x, as)
			}
		}
		memo[x.id] = r
		stack = stack[:len(stack)-1]
	}
	return memo[t.id]
}

func rebuild(x *Term, as []*Term) *Term {
	switch x.op {
	case ONot:
		return Not(as[0])
	case OAnd:
		return And(as...)
	case OOr:
		return Or(as...)
	case OIte:
		return Ite(as[0], as[1], as[2])
	case OEq:
		return Eq(as[0], as[1])
	case OAdd:
		return Add(as[0], as[1])
	case OSub:
		return Sub(as[0], as[1])
	case OMul:
		return Mul(as[0], as[1])
	case OUlt:
		return Ult(as[0], as[1])
	case OSlt:
		return Slt(as[0], as[1])
	case OBVAnd:
		return BVAnd(as[0], as[1])
	case OBVOr:
		return BVOr(as[0], as[1])
	case OBVXor:
		return BVXor(as[0], as[1])
	case OShl:
		return Shl(as[0], as[1])
	case OLshr:
		return Lshr(as[0], as[1])
	case OAshr:
		return Ashr(as[0], as[1])
	case OZext:
		return Zext(as[0], x.w)
	case OSext:
		return Sext(as[0], x.w)
	case OExtract:
		return Extract(as[0], x.w)
	case OSdiv:
		return Sdiv(as[0], as[1])
	case OUdiv:
		return Udiv(as[0], as[1])
	case OSrem:
		return Srem(as[0], as[1])
	case OUrem:
		return Urem(as[0], as[1])
	case OUF:
		return UF(x.name, x.w, as...)
	}
	panic("rebuild: unknown op")
}

// dagSize counts the nodes reachable from the given terms.
func dagSize(ts ...*Term) int {
	seen := map[int]bool{}
	var st []*Term
	st = append(st, ts...)
	n := 0
	for len(st) > 0 {
		t := st[len(st)-1]
		st = st[:len(st)-1]
		if seen[t.id] {
			continue
		}
		seen[t.id] = true
		n++
		st = append(st, t.args...)
	}
	return n
}
