package main

import (
	"fmt"
	"go/types"
	"strings"

	"golang.org/x/tools/go/ssa"
)

// ---------------- values
//
//	*Term      integers, bools, strings (32-bit symbols), time instants
//	*Ptr       pointers and channels: guarded set of locations (nil target = nil pointer)
//	*Iface     interface values: guarded set of (dynamic type, value), merged per type
//	*Func      function values: guarded set of (function, captured env), merged per function
//	*Slice     (array pointer, offset, len, cap)
//	*Struct    struct and tuple values
type Value interface{}

type Loc struct {
	obj  *Object
	path string
}

type PAlt struct {
	g *Term
	l *Loc // nil = nil pointer
}
type Ptr struct{ alts []PAlt }

type IAlt struct {
	g   *Term
	typ types.Type // nil = nil interface
	key string
	val Value
}
type Iface struct{ alts []IAlt }

type FAlt struct {
	g     *Term
	fn    *ssa.Function // nil = nil func
	intr  string        // non-empty: built-in function value (e.g. context cancel func)
	iobj  *Object
	env   []Value
	bound Value // receiver for intrinsic bound methods
}
type Func struct{ alts []FAlt }

type Slice struct {
	arr           *Ptr // -> location of the array base (elements at path+"[k]")
	off, len, cap *Term
}
type Struct struct{ f []Value }

type Object struct {
	id    int
	n     int // number of elements for array objects
	typ   types.Type
	cells map[string]Value
	local bool
	name  string
	kind  string // "", "chan", "ctx", "cond", "ticker", "err", "blob"
	cap   int    // channel capacity
	owner int    // thread that allocated it
	key   string
	published bool
	ghost bool
}

var locs = map[string]*Loc{}

func mkLoc(o *Object, path string) *Loc {
	k := fmt.Sprintf("%d|%s", o.id, path)
	if l, ok := locs[k]; ok {
		return l
	}
	l := &Loc{o, path}
	locs[k] = l
	return l
}

func nilPtr() *Ptr         { return &Ptr{[]PAlt{{True, nil}}} }
func onePtr(l *Loc) *Ptr   { return &Ptr{[]PAlt{{True, l}}} }
func nilIface() *Iface     { return &Iface{[]IAlt{{g: True}}} }
func nilFunc() *Func       { return &Func{[]FAlt{{g: True}}} }
func (p *Ptr) isNil() *Term { // guard under which p is nil
	g := False
	for _, a := range p.alts {
		if a.l == nil {
			g = Or(g, a.g)
		}
	}
	return g
}

func typeKey(t types.Type) string {
	return types.TypeString(t, func(p *types.Package) string { return p.Path() })
}

func mkIface(t types.Type, v Value) *Iface {
	return &Iface{[]IAlt{{g: True, typ: t, key: typeKey(t), val: v}}}
}

func mergePtr(g *Term, a, b *Ptr) *Ptr {
	var out []PAlt
	add := func(gg *Term, l *Loc) {
		if gg.IsFalse() {
			return
		}
		for i := range out {
			if out[i].l == l {
				out[i].g = Or(out[i].g, gg)
				return
			}
		}
		out = append(out, PAlt{gg, l})
	}
	for _, x := range a.alts {
		add(And(g, x.g), x.l)
	}
	ng := Not(g)
	for _, x := range b.alts {
		add(And(ng, x.g), x.l)
	}
	return &Ptr{out}
}

func mergeIface(g *Term, a, b *Iface) *Iface {
	var out []IAlt
	add := func(gg *Term, x IAlt) {
		if gg.IsFalse() {
			return
		}
		for i := range out {
			if out[i].key == x.key && (out[i].typ == nil) == (x.typ == nil) {
				if x.typ != nil {
					out[i].val = merge(gg, x.val, out[i].val)
				}
				out[i].g = Or(out[i].g, gg)
				return
			}
		}
		out = append(out, IAlt{gg, x.typ, x.key, x.val})
	}
	for _, x := range a.alts {
		add(And(g, x.g), x)
	}
	ng := Not(g)
	for _, x := range b.alts {
		add(And(ng, x.g), x)
	}
	return &Iface{out}
}

func mergeFunc(g *Term, a, b *Func) *Func {
	var out []FAlt
	add := func(gg *Term, x FAlt) {
		if gg.IsFalse() {
			return
		}
		for i := range out {
			if out[i].fn == x.fn && out[i].intr == x.intr && out[i].iobj == x.iobj && len(out[i].env) == len(x.env) {
				for k := range x.env {
					out[i].env[k] = merge(gg, x.env[k], out[i].env[k])
				}
				if x.bound != nil {
					out[i].bound = merge(gg, x.bound, out[i].bound)
				}
				out[i].g = Or(out[i].g, gg)
				return
			}
		}
		env := make([]Value, len(x.env))
		copy(env, x.env)
		out = append(out, FAlt{gg, x.fn, x.intr, x.iobj, env, x.bound})
	}
	for _, x := range a.alts {
		add(And(g, x.g), x)
	}
	ng := Not(g)
	for _, x := range b.alts {
		add(And(ng, x.g), x)
	}
	return &Func{out}
}

// merge returns ite(g, a, b) on values.
func merge(g *Term, a, b Value) Value {
	if g.IsTrue() {
		return a
	}
	if g.IsFalse() {
		return b
	}
	if a == nil {
		return b
	}
	if b == nil {
		return a
	}
	switch x := a.(type) {
	case *Term:
		return Ite(g, x, b.(*Term))
	case *Ptr:
		y := b.(*Ptr)
		if x == y {
			return x
		}
		return mergePtr(g, x, y)
	case *Iface:
		y := b.(*Iface)
		if x == y {
			return x
		}
		return mergeIface(g, x, y)
	case *Func:
		y := b.(*Func)
		if x == y {
			return x
		}
		return mergeFunc(g, x, y)
	case *Slice:
		y := b.(*Slice)
		if x == y {
			return x
		}
		return &Slice{mergePtr(g, x.arr, y.arr), Ite(g, x.off, y.off), Ite(g, x.len, y.len), Ite(g, x.cap, y.cap)}
	case *Struct:
		y := b.(*Struct)
		if x == y {
			return x
		}
		r := &Struct{make([]Value, len(x.f))}
		for i := range x.f {
			r.f[i] = merge(g, x.f[i], y.f[i])
		}
		return r
	}
	panic(fmt.Sprintf("merge %T", a))
}

// valueEq returns the condition under which two values of the same static type are ==.
func valueEq(a, b Value) *Term {
	switch x := a.(type) {
	case *Term:
		return Eq(x, b.(*Term))
	case *Ptr:
		y := b.(*Ptr)
		eq := False
		for _, p := range x.alts {
			for _, q := range y.alts {
				if p.l == q.l {
					eq = Or(eq, And(p.g, q.g))
				}
			}
		}
		return eq
	case *Iface:
		y := b.(*Iface)
		eq := False
		for _, p := range x.alts {
			for _, q := range y.alts {
				if (p.typ == nil) != (q.typ == nil) || p.key != q.key {
					continue
				}
				if p.typ == nil {
					eq = Or(eq, And(p.g, q.g))
				} else {
					eq = Or(eq, And(p.g, q.g, valueEq(p.val, q.val)))
				}
			}
		}
		return eq
	case *Func: // only comparison with nil is legal
		y := b.(*Func)
		eq := False
		for _, p := range x.alts {
			for _, q := range y.alts {
				if p.fn == nil && q.fn == nil && p.intr == "" && q.intr == "" {
					eq = Or(eq, And(p.g, q.g))
				}
			}
		}
		return eq
	case *Struct:
		y := b.(*Struct)
		eq := True
		for i := range x.f {
			eq = And(eq, valueEq(x.f[i], y.f[i]))
		}
		return eq
	case *Slice: // only comparison with nil
		y := b.(*Slice)
		return And(x.arr.isNil(), y.arr.isNil())
	}
	panic(fmt.Sprintf("valueEq %T", a))
}

// ---------------- type helpers
func isNamed(t types.Type, pkg, name string) bool {
	n, ok := types.Unalias(t).(*types.Named)
	return ok && n.Obj().Pkg() != nil && n.Obj().Pkg().Path() == pkg && n.Obj().Name() == name
}

// syncLeaf: library types modelled as one scalar cell (width; 0 = Bool); -1 = cell holding a Value (atomic.Value)
func syncLeaf(t types.Type) (int, bool) {
	n, ok := types.Unalias(t).(*types.Named)
	if !ok || n.Obj().Pkg() == nil {
		return 0, false
	}
	switch n.Obj().Pkg().Path() + "." + n.Obj().Name() {
	case "sync/atomic.Uint32", "sync/atomic.Int32", "sync.WaitGroup", "sync.RWMutex", "sync.Mutex":
		return 32, true
	case "sync/atomic.Uint64", "sync/atomic.Int64", "time.Time", "time.Duration":
		return 64, true
	case "sync/atomic.Bool", "sync.Once":
		return 0, true
	case "sync/atomic.Value":
		return -1, true
	case "sync.noCopy", "sync/atomic.noCopy":
		return 32, true
	}
	return 0, false
}

func width(t types.Type) int {
	b, ok := t.Underlying().(*types.Basic)
	if !ok {
		panic("width of " + t.String())
	}
	switch b.Kind() {
	case types.Bool, types.UntypedBool:
		return 0
	case types.Int8, types.Uint8:
		return 8
	case types.Int16, types.Uint16:
		return 16
	case types.Int32, types.Uint32, types.UntypedRune:
		return 32
	case types.String, types.UntypedString:
		return 32
	case types.Float32, types.Float64, types.UntypedFloat, types.Complex64, types.Complex128:
		panic("cannot encode: floating point")
	}
	return 64
}

func isUnsigned(t types.Type) bool {
	b, ok := t.Underlying().(*types.Basic)
	return ok && b.Info()&types.IsUnsigned != 0
}

func zero(t types.Type) Value {
	if w, ok := syncLeaf(t); ok {
		if w == -1 {
			return nilIface()
		}
		return BV(w, 0)
	}
	switch u := t.Underlying().(type) {
	case *types.Basic:
		if u.Kind() == types.UnsafePointer {
			return nilPtr()
		}
		if u.Kind() == types.UntypedNil {
			return nilPtr()
		}
		return BV(width(t), 0)
	case *types.Struct:
		s := &Struct{make([]Value, u.NumFields())}
		for i := range s.f {
			s.f[i] = zero(u.Field(i).Type())
		}
		return s
	case *types.Slice:
		return &Slice{nilPtr(), BV(64, 0), BV(64, 0), BV(64, 0)}
	case *types.Tuple:
		s := &Struct{make([]Value, u.Len())}
		for i := range s.f {
			s.f[i] = zero(u.At(i).Type())
		}
		return s
	case *types.Interface:
		return nilIface()
	case *types.Signature:
		return nilFunc()
	case *types.Pointer, *types.Chan:
		return nilPtr()
	case *types.Array:
		s := &Struct{make([]Value, u.Len())}
		for i := range s.f {
			s.f[i] = zero(u.Elem())
		}
		return s
	case *types.Map:
		return nilPtr()
	}
	panic("zero of " + t.String())
}

var strs = map[string]uint64{"": 0}
var strNames = map[uint64]string{0: ""}

func strConst(s string) *Term {
	if _, ok := strs[s]; !ok {
		id := uint64(len(strs))
		strs[s] = id
		strNames[id] = s
	}
	return BV(32, strs[s])
}

func sanitize(s string) string {
	var sb strings.Builder
	for _, c := range s {
		if c >= 'a' && c <= 'z' || c >= 'A' && c <= 'Z' || c >= '0' && c <= '9' {
			sb.WriteRune(c)
		} else {
			sb.WriteByte('_')
		}
	}
	return sb.String()
}
