package main

import (
	"fmt"
	"go/constant"
	"go/token"
	"go/types"
	"sort"
	"strings"

	"golang.org/x/tools/go/ssa"
)

// ---------------- CFG structure: natural loops, processed innermost-first by unrolling
type loopInfo struct {
	header   *ssa.BasicBlock
	blocks   map[int]bool
	parent   *loopInfo
	children []*loopInfo
	ord      int // ordinal of the loop in its function (by reverse post-order of the header): a name that does not move with line numbers
}
type fnInfo struct {
	rpoIdx  map[int]int
	loops   []*loopInfo
	loopOf  map[int]*loopInfo // innermost loop of a block
	topItems []regionItem
	items   map[*loopInfo][]regionItem
}
type regionItem struct {
	b *ssa.BasicBlock
	l *loopInfo
}

func (w *W) info(fn *ssa.Function) *fnInfo {
	if fi, ok := w.fninfo[fn]; ok {
		return fi
	}
	fi := &fnInfo{rpoIdx: map[int]int{}, loopOf: map[int]*loopInfo{}, items: map[*loopInfo][]regionItem{}}
	// reverse post-order
	seen := map[int]bool{}
	var post []*ssa.BasicBlock
	var dfs func(b *ssa.BasicBlock)
	dfs = func(b *ssa.BasicBlock) {
		seen[b.Index] = true
		for _, s := range b.Succs {
			if !seen[s.Index] {
				dfs(s)
			}
		}
		post = append(post, b)
	}
	dfs(fn.Blocks[0])
	if fn.Recover != nil && !seen[fn.Recover.Index] {
		dfs(fn.Recover)
	}
	for i := range post {
		fi.rpoIdx[post[len(post)-1-i].Index] = i
	}
	// back edges u->h with h dominating u; natural loops
	byHeader := map[int]*loopInfo{}
	for _, u := range post {
		for _, h := range u.Succs {
			if h.Dominates(u) {
				l := byHeader[h.Index]
				if l == nil {
					l = &loopInfo{header: h, blocks: map[int]bool{h.Index: true}}
					byHeader[h.Index] = l
					fi.loops = append(fi.loops, l)
				}
				// add all blocks that reach u without passing h
				stack := []*ssa.BasicBlock{u}
				for len(stack) > 0 {
					x := stack[len(stack)-1]
					stack = stack[:len(stack)-1]
					if l.blocks[x.Index] {
						continue
					}
					l.blocks[x.Index] = true
					for _, p := range x.Preds {
						stack = append(stack, p)
					}
				}
			} else if fi.rpoIdx[h.Index] <= fi.rpoIdx[u.Index] && seen[h.Index] {
				panic("cannot encode: irreducible control flow in " + fn.String())
			}
		}
	}
	// nesting: parent = smallest strictly containing loop
	sort.Slice(fi.loops, func(i, j int) bool { return len(fi.loops[i].blocks) < len(fi.loops[j].blocks) })
	for i, l := range fi.loops {
		for _, m := range fi.loops[i+1:] {
			if m.blocks[l.header.Index] && m != l {
				l.parent = m
				m.children = append(m.children, l)
				break
			}
		}
	}
	for _, b := range post {
		for _, l := range fi.loops { // sorted by size: first hit is innermost
			if l.blocks[b.Index] {
				fi.loopOf[b.Index] = l
				break
			}
		}
	}
	mk := func(l *loopInfo) []regionItem {
		var items []regionItem
		for _, b := range post {
			if fi.loopOf[b.Index] == l {
				items = append(items, regionItem{b: b})
			}
		}
		for _, c := range fi.loops {
			if c.parent == l {
				items = append(items, regionItem{l: c})
			}
		}
		idx := func(it regionItem) int {
			if it.b != nil {
				return fi.rpoIdx[it.b.Index]
			}
			return fi.rpoIdx[it.l.header.Index]
		}
		sort.Slice(items, func(i, j int) bool { return idx(items[i]) < idx(items[j]) })
		return items
	}
	fi.topItems = mk(nil)
	for _, l := range fi.loops {
		fi.items[l] = mk(l)
	}
	byHdr := append([]*loopInfo(nil), fi.loops...)
	sort.Slice(byHdr, func(i, j int) bool { return fi.rpoIdx[byHdr[i].header.Index] < fi.rpoIdx[byHdr[j].header.Index] })
	for i, l := range byHdr {
		l.ord = i
	}
	w.fninfo[fn] = fi
	return fi
}

// ---------------- frames
type deferred struct {
	g    *Term
	call *ssa.CallCommon
	args []Value
	fv   Value // *Func or *Iface (invoke)
	key  int
	pos  token.Pos
}
type edge struct {
	from *ssa.BasicBlock
	g    *Term
	phis []Value
}
type frame struct {
	t         *Thread
	fn        *ssa.Function
	env       map[ssa.Value]Value
	ctx       int
	iter      int
	fv        FAlt
	defers    []deferred
	panicG    *Term
	panicV    Value
	recovered *Term
	in        map[int][]edge
	ret       Value
	retG      *Term
	recTarget *frame // set when this frame is a deferred call run while recTarget panics
	finalGuard *Term
	caller    *frame
	harness   bool
	canRecover bool
}

func (w *W) newFrame(t *Thread, fv FAlt, caller *frame, ctx int) *frame {
	f := &frame{t: t, fn: fv.fn, env: map[ssa.Value]Value{}, ctx: ctx, fv: fv, panicG: False, recovered: False, in: map[int][]edge{}, retG: False, caller: caller}
	if caller != nil {
		f.finalGuard = caller.finalGuard
	}
	if fv.fn != nil {
		f.harness = w.isHarnessFn(fv.fn)
		f.canRecover = w.hasRecover(fv.fn) || (caller != nil && caller.canRecover)
	}
	return f
}

func (w *W) isHarnessFn(fn *ssa.Function) bool {
	for fn.Parent() != nil {
		fn = fn.Parent()
	}
	p := fn.Pos()
	if !p.IsValid() {
		if fn.Origin() != nil {
			p = fn.Origin().Pos()
		}
		if !p.IsValid() {
			return false
		}
	}
	return strings.Contains(w.fset.Position(p).Filename, "zz_verif_")
}

func (f *frame) raise(cond *Term, v Value) {
	if cond.IsFalse() {
		return
	}
	if f.t.alone {
		// a panic while evaluating a final-state predicate: only states the predicate applies to count
		if f.finalGuard != nil {
			cond = And(cond, f.finalGuard)
		}
		f.t.w.addViol("harness-predicate-panic", cond, "")
		return
	}
	if !f.canRecover && !f.t.w.observe {
		// no frame of this goroutine can recover: the process dies here; deferred calls are not modelled
		f.t.w.crash(cond, "uncaught panic in goroutine "+f.t.name)
		return
	}
	if !f.canRecover {
		return
	}
	if f.panicV == nil {
		f.panicV = v
	} else if v != nil {
		f.panicV = merge(cond, v, f.panicV)
	}
	f.panicG = Or(f.panicG, cond)
}

func (f *frame) key(b, i int) int { return mkKey(f.ctx, f.iter, b, i) }

func (f *frame) set(x ssa.Value, v Value, g *Term) {
	if f.iter != 0 {
		if old, ok := f.env[x]; ok && old != nil && v != nil {
			f.env[x] = merge(g, v, old)
			return
		}
	}
	f.env[x] = v
}

func (w *W) runtimeErr(why string) Value {
	return mkIface(w.errType(), onePtr(mkLoc(w.errObj("runtime:"+why), "")))
}

func (w *W) val(f *frame, v ssa.Value) Value {
	switch x := v.(type) {
	case *ssa.Const:
		if x.Value == nil {
			return zero(x.Type())
		}
		switch x.Value.Kind() {
		case constant.Bool:
			return Bool(constant.BoolVal(x.Value))
		case constant.String:
			return strConst(constant.StringVal(x.Value))
		case constant.Int:
			u, _ := constant.Uint64Val(x.Value)
			if i, ok := constant.Int64Val(x.Value); ok {
				u = uint64(i)
			}
			return BV(width(x.Type()), u)
		}
		panic("cannot encode: constant kind " + x.Value.Kind().String() + " " + x.String())
	case *ssa.Function:
		return &Func{[]FAlt{{g: True, fn: x}}}
	case *ssa.Global:
		o, _ := w.newObj("G:"+x.String(), x.Type().(*types.Pointer).Elem(), false)
		return onePtr(mkLoc(o, ""))
	case *ssa.FreeVar:
		for i, fvv := range f.fn.FreeVars {
			if fvv == x {
				return f.fv.env[i]
			}
		}
		panic("freevar not found")
	case *ssa.Builtin:
		return x
	}
	r, ok := f.env[v]
	if !ok {
		panic(fmt.Sprintf("undefined value %s (%T) in %s", v.Name(), v, f.fn))
	}
	return r
}

// execFunc walks one inlined function instance. Returns (result, normal-return guard, panic guard, panic value).
func (w *W) execFunc(t *Thread, f *frame, args []Value, pg *Term) (Value, *Term, *Term, Value) {
	fn := f.fn
	if fn.Blocks == nil {
		panic("cannot encode: no body for " + fn.String())
	}
	w.funcs[fn.String()] = true
	w.curFn = append(w.curFn, fn.String())
	defer func() { w.curFn = w.curFn[:len(w.curFn)-1] }()
	for i, p := range fn.Params {
		f.env[p] = args[i]
	}
	fi := w.info(fn)
	f.in[0] = []edge{{nil, pg, nil}}
	w.walkItems(f, fi, fi.topItems)
	// exit by panic: run deferred calls, honour recover()
	if !f.panicG.IsFalse() {
		exitG := f.panicG
		for i := len(f.defers) - 1; i >= 0; i-- {
			d := f.defers[i]
			dg := And(exitG, d.g)
			if dg.IsFalse() {
				continue
			}
			_, _, pG, pV := w.doCall(f, d.call, d.fv, d.args, mkKey(d.key, -7, i, 0), dg, d.pos, f)
			f.raise(pG, pV)
		}
		if !f.recovered.IsFalse() {
			if fn.Recover != nil {
				f.in[fn.Recover.Index] = append(f.in[fn.Recover.Index], edge{nil, f.recovered, nil})
				w.execBlock(f, fi, fn.Recover)
				// blocks reachable from Recover (normally just a return)
				for _, it := range fi.topItems {
					if it.b != nil && it.b != fn.Recover && len(f.in[it.b.Index]) > 0 {
						w.execBlock(f, fi, it.b)
					}
				}
			} else {
				f.retG = Or(f.retG, f.recovered)
				if f.ret == nil && fn.Signature.Results().Len() > 0 {
					if fn.Signature.Results().Len() == 1 {
						f.ret = zero(fn.Signature.Results().At(0).Type())
					} else {
						f.ret = zero(fn.Signature.Results())
					}
				}
			}
		}
	}
	return f.ret, f.retG, f.panicG, f.panicV
}

func (w *W) walkItems(f *frame, fi *fnInfo, items []regionItem) {
	for _, it := range items {
		if it.b != nil {
			w.execBlock(f, fi, it.b)
		} else {
			w.walkLoop(f, fi, it.l)
		}
	}
}

func (w *W) unwind(f *frame, l *loopInfo) int {
	name := w.loopName(f, l)
	for k, v := range w.unwindOverride {
		if strings.Contains(name, k) {
			unwindHit[k] = true
			return v
		}
	}
	return w.U
}

// loopName: <function>#<ordinal>@<file:line>; overrides match on any substring, the registered ones use
// "<function suffix>#<ordinal>" so that they survive edits that shift line numbers
func (w *W) loopName(f *frame, l *loopInfo) string {
	return fmt.Sprintf("%s#%d@%s", f.fn.String(), l.ord, w.pos(loopPos(l)))
}

// unwindHit: the overrides that matched a loop (an override that matches nothing is reported: the bound it was
// meant to set is then the default)
var unwindHit = map[string]bool{}

func loopPos(l *loopInfo) token.Pos {
	for _, ins := range l.header.Instrs {
		if ins.Pos().IsValid() {
			return ins.Pos()
		}
	}
	for idx := range l.blocks {
		_ = idx
	}
	return token.NoPos
}

func (w *W) walkLoop(f *frame, fi *fnInfo, l *loopInfo) {
	saved := f.iter
	U := w.unwind(f, l)
	h := l.header.Index
	name := w.loopName(f, l)
	for k := 0; ; k++ {
		g := False
		for _, e := range f.in[h] {
			g = Or(g, e.g)
		}
		if g.IsFalse() {
			f.in[h] = nil
			break
		}
		if k > w.loopIters[name] {
			w.loopIters[name] = k
		}
		if k >= U {
			// beyond the bound: walk only the header up to its first operation (a goroutine blocked at the
			// loop head, e.g. in `for x := range ch`, is not a truncated state)
			before := f.t.truncated
			f.iter = mkKey(saved, h, k, -3)
			f.t.lazy++
			prevName := f.t.lazyName
			f.t.lazyName = name
			w.walkItems(f, fi, fi.items[l])
			f.t.lazyName = prevName
			f.t.lazy--
			tg := False
			for b := range l.blocks {
				for _, e := range f.in[b] {
					tg = Or(tg, e.g)
				}
				f.in[b] = nil
			}
			f.t.truncated = Or(f.t.truncated, tg)
			now := f.t.truncated
			delta := And(now, Not(before))
			if old, ok := w.loopsTruncated[name]; ok {
				w.loopsTruncated[name] = Or(old, delta)
			} else {
				w.loopsTruncated[name] = delta
			}
			break
		}
		f.iter = mkKey(saved, h, k, -3)
		w.walkItems(f, fi, fi.items[l])
	}
	f.iter = saved
}

func (w *W) addEdge(f *frame, from, to *ssa.BasicBlock, g *Term) {
	if g.IsFalse() {
		return
	}
	e := edge{from: from, g: g}
	pi := -1
	for i, p := range to.Preds {
		if p == from {
			pi = i
			break
		}
	}
	for _, ins := range to.Instrs {
		phi, ok := ins.(*ssa.Phi)
		if !ok {
			break
		}
		e.phis = append(e.phis, w.val(f, phi.Edges[pi]))
	}
	f.in[to.Index] = append(f.in[to.Index], e)
}

func (w *W) execBlock(f *frame, fi *fnInfo, b *ssa.BasicBlock) {
	edges := f.in[b.Index]
	f.in[b.Index] = nil
	g := False
	for _, e := range edges {
		g = Or(g, e.g)
	}
	if g.IsFalse() {
		return
	}
	t := f.t
	nphi := 0
	for ii, ins := range b.Instrs {
		if g.IsFalse() {
			return
		}
		switch x := ins.(type) {
		case *ssa.Phi:
			var v Value
			for _, e := range edges {
				ev := e.phis[nphi]
				if v == nil {
					v = ev
				} else {
					v = merge(e.g, ev, v)
				}
			}
			nphi++
			f.set(x, v, g)
		case *ssa.If:
			c := w.val(f, x.Cond).(*Term)
			w.addEdge(f, b, b.Succs[0], And(g, c))
			w.addEdge(f, b, b.Succs[1], And(g, Not(c)))
		case *ssa.Jump:
			w.addEdge(f, b, b.Succs[0], g)
		case *ssa.Return:
			var rv Value
			if len(x.Results) == 1 {
				rv = w.val(f, x.Results[0])
			} else if len(x.Results) > 1 {
				s := &Struct{}
				for _, r := range x.Results {
					s.f = append(s.f, w.val(f, r))
				}
				rv = s
			}
			if f.ret == nil {
				f.ret = rv
			} else if rv != nil {
				f.ret = merge(g, rv, f.ret)
			}
			f.retG = Or(f.retG, g)
		case *ssa.Panic:
			f.raise(g, w.val(f, x.X))
			w.notePanic(g, "panic() at "+w.pos(x.Pos()))
			return
		default:
			g = w.instr(t, f, ins, f.key(b.Index, ii), g)
		}
	}
}

func (w *W) notePanic(g *Term, why string) {
	if g.IsFalse() {
		return
	}
	w.crashes = append(w.crashes, violation{id: "panic", cond: g, pos: why})
}

// rtPanic raises a run-time panic under cond and returns g with cond removed.
func (w *W) rtPanic(f *frame, g, cond *Term, why string, pos token.Pos) *Term {
	c := And(g, cond)
	if c.IsFalse() {
		return g
	}
	why = why + " at " + w.pos(pos)
	f.raise(c, w.runtimeErr(why))
	w.notePanic(c, why)
	return And(g, Not(cond))
}

func (w *W) instr(t *Thread, f *frame, ins ssa.Instruction, key int, g *Term) *Term {
	switch x := ins.(type) {
	case *ssa.Alloc:
		local := !x.Heap
		o, fresh := w.newObj(fmt.Sprintf("A%d:%d", t.id, key), x.Type().(*types.Pointer).Elem(), local)
		if fresh {
			o.owner = t.id
			o.ghost = f.harness
			o.name = fmt.Sprintf("%s@%s", x.Comment, w.pos(x.Pos()))
		}
		if at, ok := x.Type().(*types.Pointer).Elem().Underlying().(*types.Array); ok {
			o.n = int(at.Len())
		}
		if local {
			o.cells = map[string]Value{}
		}
		o.published = false
		f.set(x, onePtr(mkLoc(o, "")), g)
	case *ssa.FieldAddr:
		p := w.val(f, x.X).(*Ptr)
		out := &Ptr{}
		nilG := False
		for _, a := range p.alts {
			if a.l == nil {
				nilG = Or(nilG, a.g)
				continue
			}
			out.alts = append(out.alts, PAlt{a.g, mkLoc(a.l.obj, fieldPath(a.l.path, x.Field))})
		}
		g = w.rtPanic(f, g, nilG, "nil pointer dereference", x.Pos())
		f.set(x, out, g)
	case *ssa.Field:
		f.set(x, w.val(f, x.X).(*Struct).f[x.Field], g)
	case *ssa.Extract:
		f.set(x, w.val(f, x.Tuple).(*Struct).f[x.Index], g)
	case *ssa.UnOp:
		g = w.unop(t, f, x, key, g)
	case *ssa.Store:
		p := w.val(f, x.Addr).(*Ptr)
		v := w.val(f, x.Val)
		elem := x.Addr.Type().Underlying().(*types.Pointer).Elem()
		g = w.rtPanic(f, g, p.isNil(), "nil pointer dereference", x.Pos())
		if w.allLocal(p, t) {
			w.storePtr(g, p, elem, v)
		} else {
			if w.access != nil {
				w.publishThrough(p, v)
			}
			_, g = w.op(t, key, g, w.plainSpec(f, p, true, x.Pos(), func(exec *Term) Value { w.storePtr(exec, p, elem, v); return nil }))
		}
	case *ssa.BinOp:
		var ng *Term
		var v Value
		v, ng = w.binop(f, x, w.val(f, x.X), w.val(f, x.Y), g)
		g = ng
		f.set(x, v, g)
	case *ssa.Convert:
		f.set(x, w.convert(f, x, w.val(f, x.X)), g)
	case *ssa.ChangeType:
		f.set(x, w.val(f, x.X), g)
	case *ssa.MakeInterface:
		f.set(x, mkIface(x.X.Type(), w.val(f, x.X)), g)
	case *ssa.ChangeInterface:
		f.set(x, w.val(f, x.X), g)
	case *ssa.MakeClosure:
		fa := FAlt{g: True, fn: x.Fn.(*ssa.Function)}
		for _, b := range x.Bindings {
			fa.env = append(fa.env, w.val(f, b))
		}
		f.set(x, &Func{[]FAlt{fa}}, g)
	case *ssa.MakeChan:
		sz := w.val(f, x.Size).(*Term)
		sz = Sext(sz, 64)
		c, ok := maxConst(sz)
		if !ok {
			panic("cannot encode: channel with non-enumerable capacity at " + w.pos(x.Pos()))
		}
		o, fresh := w.newObj(fmt.Sprintf("C%d:%d", t.id, key), x.Type(), false)
		if fresh {
			o.kind = "chan"
			o.cap = int(c)
			o.owner = t.id
			o.ghost = f.harness
			o.name = "chan@" + w.pos(x.Pos())
		}
		if int(c) > o.cap {
			o.cap = int(c)
		}
		if !sz.IsConst() {
			o.cells["capv"] = sz
		}
		o.published = false
		f.set(x, onePtr(mkLoc(o, "")), g)
	case *ssa.Go:
		g = w.goStmt(t, f, x, key, g)
	case *ssa.Call:
		g = w.call(t, f, x, key, g)
	case *ssa.Defer:
		d := deferred{g: g, call: &x.Call, key: key, pos: x.Pos()}
		for _, a := range x.Call.Args {
			d.args = append(d.args, w.val(f, a))
		}
		d.fv = w.calleeValue(f, &x.Call)
		f.defers = append(f.defers, d)
	case *ssa.RunDefers:
		for i := len(f.defers) - 1; i >= 0; i-- {
			d := f.defers[i]
			dg := And(g, d.g)
			if dg.IsFalse() {
				continue
			}
			_, og, pG, pV := w.doCall(f, d.call, d.fv, d.args, mkKey(key, -5, i, 0), dg, d.pos, nil)
			f.raise(pG, pV)
			g = Or(And(g, Not(d.g)), og)
		}
	case *ssa.TypeAssert:
		g = w.typeAssert(f, x, g)
	case *ssa.MakeSlice:
		ln, cp := w.val(f, x.Len).(*Term), w.val(f, x.Cap).(*Term)
		ln, cp = Sext(ln, 64), Sext(cp, 64)
		mx, bad, okc := sizeBound(cp)
		if !okc {
			panic("cannot encode: make([]T, n) with non-enumerable n at " + w.pos(x.Pos()) + " n=" + cp.String() + diagLeaves(cp))
		}
		g = w.rtPanic(f, g, Or(bad, Slt(cp, ln), Slt(ln, BV(64, 0))), "makeslice: len or cap out of range", x.Pos())
		o, fresh := w.newObj(fmt.Sprintf("S%d:%d", t.id, key), x.Type().Underlying().(*types.Slice).Elem(), false)
		if fresh {
			o.n = int(mx)
			o.owner = t.id
			o.ghost = f.harness
			o.name = "makeslice@" + w.pos(x.Pos())
		} else if int(mx) > o.n {
			o.n = int(mx)
		}
		o.published = false
		f.set(x, &Slice{onePtr(mkLoc(o, "")), BV(64, 0), ln, cp}, g)
	case *ssa.Slice:
		g = w.sliceInstr(f, x, g)
	case *ssa.IndexAddr:
		g = w.indexAddr(f, x, g)
	case *ssa.Index:
		idx := w.val(f, x.Index).(*Term)
		s := w.val(f, x.X).(*Struct)
		var v Value
		for k := range s.f {
			if v == nil {
				v = s.f[k]
			} else {
				v = merge(Eq(Sext(idx, 64), BV(64, uint64(k))), s.f[k], v)
			}
		}
		f.set(x, v, g)
	case *ssa.Send:
		g = w.chanSend(t, f, x, key, g)
	case *ssa.Select:
		g = w.selectInstr(t, f, x, key, g)
	case *ssa.DebugRef:
	default:
		panic(fmt.Sprintf("cannot encode: instruction %T in %s at %s", ins, f.fn, w.pos(ins.Pos())))
	}
	return g
}

// plainSpec builds the op spec for a plain (non-sync) shared memory access.
func (w *W) plainSpec(f *frame, p *Ptr, write bool, pos token.Pos, eff func(exec *Term) Value) opSpec {
	kind := "load"
	if write {
		kind = "store"
	}
	spec := opSpec{effect: eff, pos: pos, kind: kind, write: write}
	for _, a := range p.alts {
		if a.l == nil {
			continue
		}
		ck := a.l.obj.key + "|" + a.l.path
		norace := f.harness || a.l.obj.ghost
		if w.access != nil {
			spec.accCells = append(spec.accCells, ck)
			spec.accNames = append(spec.accNames, cellLabel(a.l))
			spec.accOwn = append(spec.accOwn, a.l.obj.owner == f.t.id && !a.l.obj.published)
			spec.accNoRace = append(spec.accNoRace, norace)
		}
		if w.racy[ck] && !norace {
			spec.yield = true
			spec.cells = append(spec.cells, ck)
			spec.cellG = append(spec.cellG, a.g)
			spec.cellLabel = append(spec.cellLabel, cellLabel(a.l))
		}
	}
	if spec.yield {
		spec.sync = true
	}
	return spec
}

// frozenPtr: every target cell is known (from pass 1) never to be written while other goroutines exist,
// except by its allocating goroutine before publication.
func (w *W) frozenPtr(p *Ptr, t types.Type) bool {
	if w.frozen == nil || w.curThread == nil || !w.othersExist(w.curThread) {
		// while a goroutine is alone (prologue) its loads are ordinary steps: they are constant-folded anyway,
		// and a later write by the same goroutine must not be visible to them
		return false
	}
	for _, a := range p.alts {
		if a.l == nil {
			continue
		}
		if !w.frozenLoc(a.l, t) {
			return false
		}
	}
	return true
}

func (w *W) frozenLoc(l *Loc, t types.Type) bool {
	if _, ok := syncLeaf(t); !ok {
		switch u := t.Underlying().(type) {
		case *types.Struct:
			for i := 0; i < u.NumFields(); i++ {
				if !w.frozenLoc(mkLoc(l.obj, fieldPath(l.path, i)), u.Field(i).Type()) {
					return false
				}
			}
			return true
		case *types.Array:
			for i := 0; i < int(u.Len()); i++ {
				if !w.frozenLoc(mkLoc(l.obj, elemPath(l.path, i)), u.Elem()) {
					return false
				}
			}
			return true
		}
	}
	return w.frozen[l.obj.key+"|"+l.path]
}

func (w *W) unop(t *Thread, f *frame, x *ssa.UnOp, key int, g *Term) *Term {
	switch x.Op {
	case token.MUL:
		p := w.val(f, x.X).(*Ptr)
		elem := x.X.Type().Underlying().(*types.Pointer).Elem()
		g = w.rtPanic(f, g, p.isNil(), "nil pointer dereference", x.Pos())
		if w.allLocal(p, t) || w.frozenPtr(p, elem) {
			v, _ := w.loadPtr(p, elem)
			f.set(x, v, g)
		} else {
			v, ng := w.op(t, key, g, w.plainSpec(f, p, false, x.Pos(), func(exec *Term) Value { v, _ := w.loadPtr(p, elem); return v }))
			g = ng
			if v == nil {
				v = zero(elem)
			}
			f.set(x, v, g)
		}
	case token.NOT:
		f.set(x, Not(w.val(f, x.X).(*Term)), g)
	case token.SUB:
		v := w.val(f, x.X).(*Term)
		f.set(x, Sub(BV(v.w, 0), v), g)
	case token.XOR:
		v := w.val(f, x.X).(*Term)
		f.set(x, BVXor(v, BV(v.w, ^uint64(0))), g)
	case token.ARROW:
		g = w.chanRecv(t, f, x, key, g)
	default:
		panic("cannot encode: unop " + x.Op.String())
	}
	return g
}

func (w *W) convert(f *frame, x *ssa.Convert, v Value) Value {
	from, to := x.X.Type().Underlying(), x.Type().Underlying()
	if _, ok := to.(*types.Slice); ok { // []byte(string)
		if tv, ok := v.(*Term); ok {
			return w.bytesOfString(tv)
		}
	}
	if tb, ok := to.(*types.Basic); ok && tb.Info()&types.IsString != 0 {
		if sv, ok := v.(*Slice); ok { // string([]byte)
			return w.stringOfBytes(sv)
		}
		if fb, ok := from.(*types.Basic); ok && fb.Info()&types.IsString != 0 {
			return v
		}
		panic("cannot encode: conversion to string at " + w.pos(x.Pos()))
	}
	if _, ok := to.(*types.Pointer); ok {
		return v
	}
	if fb, ok := from.(*types.Basic); ok && fb.Kind() == types.UnsafePointer {
		return v
	}
	if tb, ok := to.(*types.Basic); ok && tb.Kind() == types.UnsafePointer {
		return v
	}
	tv := v.(*Term)
	tw := width(x.Type())
	if tw <= tv.w {
		return Extract(tv, tw)
	}
	if isUnsigned(x.X.Type()) {
		return Zext(tv, tw)
	}
	return Sext(tv, tw)
}

func (w *W) binop(f *frame, x *ssa.BinOp, a, b Value, g *Term) (Value, *Term) {
	if _, ok := a.(*Term); !ok {
		eq := valueEq(a, b)
		if x.Op == token.NEQ {
			return Not(eq), g
		}
		if x.Op == token.EQL {
			return eq, g
		}
		panic("cannot encode: binop on non-scalar")
	}
	p, q := a.(*Term), b.(*Term)
	signed := !isUnsigned(x.X.Type())
	isStr := false
	if bt, ok := x.X.Type().Underlying().(*types.Basic); ok && bt.Info()&types.IsString != 0 {
		isStr = true
	}
	lt := func(a, b *Term) *Term {
		if signed {
			return Slt(a, b)
		}
		return Ult(a, b)
	}
	if p.w == 0 {
		switch x.Op {
		case token.EQL:
			return Eq(p, q), g
		case token.NEQ:
			return Not(Eq(p, q)), g
		case token.AND:
			return And(p, q), g
		case token.OR:
			return Or(p, q), g
		}
		panic("cannot encode: bool binop " + x.Op.String())
	}
	switch x.Op {
	case token.ADD:
		if isStr {
			if p.IsConst() && q.IsConst() {
				return strConst(strNames[p.val] + strNames[q.val]), g
			}
			return UF("strcat", 32, p, q), g
		}
		return Add(p, q), g
	case token.SUB:
		return Sub(p, q), g
	case token.MUL:
		return Mul(p, q), g
	case token.QUO:
		g = w.rtPanic(f, g, Eq(q, BV(q.w, 0)), "integer divide by zero", x.Pos())
		if signed {
			return Sdiv(p, q), g
		}
		return Udiv(p, q), g
	case token.REM:
		g = w.rtPanic(f, g, Eq(q, BV(q.w, 0)), "integer divide by zero", x.Pos())
		if signed {
			return Srem(p, q), g
		}
		return Urem(p, q), g
	case token.AND:
		return BVAnd(p, q), g
	case token.OR:
		return BVOr(p, q), g
	case token.XOR:
		return BVXor(p, q), g
	case token.AND_NOT:
		return BVAnd(p, BVXor(q, BV(q.w, ^uint64(0)))), g
	case token.SHL, token.SHR:
		// shift count has its own width: normalise to p.w
		var cnt *Term
		if q.w >= p.w {
			// saturate
			big := Not(Ult(q, BV(q.w, uint64(p.w))))
			cnt = Ite(big, BV(p.w, uint64(p.w)), Extract(q, p.w))
		} else {
			cnt = Zext(q, p.w)
		}
		if x.Op == token.SHL {
			return Shl(p, cnt), g
		}
		if signed {
			return Ashr(p, cnt), g
		}
		return Lshr(p, cnt), g
	case token.EQL:
		return Eq(p, q), g
	case token.NEQ:
		return Not(Eq(p, q)), g
	case token.LSS:
		if isStr {
			panic("cannot encode: string ordering")
		}
		return lt(p, q), g
	case token.GTR:
		return lt(q, p), g
	case token.LEQ:
		return Not(lt(q, p)), g
	case token.GEQ:
		return Not(lt(p, q)), g
	}
	panic("cannot encode: binop " + x.Op.String())
}

func (w *W) typeAssert(f *frame, x *ssa.TypeAssert, g *Term) *Term {
	iv := w.val(f, x.X).(*Iface)
	var out Value
	ok := False
	it, isI := x.AssertedType.Underlying().(*types.Interface)
	for _, a := range iv.alts {
		if a.typ == nil {
			continue
		}
		var match bool
		var nv Value
		if isI {
			match = types.Implements(a.typ, it)
			nv = &Iface{[]IAlt{{g: True, typ: a.typ, key: a.key, val: a.val}}}
		} else {
			match = types.Identical(a.typ, x.AssertedType)
			nv = a.val
		}
		if match {
			ok = Or(ok, a.g)
			if out == nil {
				out = nv
			} else {
				out = merge(a.g, nv, out)
			}
		}
	}
	if out == nil {
		out = zero(x.AssertedType)
	} else if !ok.IsTrue() {
		out = merge(ok, out, zero(x.AssertedType))
	}
	if x.CommaOk {
		f.set(x, &Struct{[]Value{out, ok}}, g)
	} else {
		g = w.rtPanic(f, g, Not(ok), "interface conversion failed", x.Pos())
		f.set(x, out, g)
	}
	return g
}

func (w *W) sliceInstr(f *frame, x *ssa.Slice, g *Term) *Term {
	get := func(v ssa.Value, def *Term) *Term {
		if v == nil {
			return def
		}
		return Sext(w.val(f, v).(*Term), 64)
	}
	switch xv := w.val(f, x.X).(type) {
	case *Ptr: // pointer to array
		at := x.X.Type().Underlying().(*types.Pointer).Elem().Underlying().(*types.Array)
		n := BV(64, uint64(at.Len()))
		lo, hi := get(x.Low, BV(64, 0)), get(x.High, n)
		mx := get(x.Max, n)
		g = w.rtPanic(f, g, Or(Slt(hi, lo), Slt(lo, BV(64, 0)), Slt(mx, hi), Slt(n, mx)), "slice bounds out of range", x.Pos())
		f.set(x, &Slice{xv, lo, Sub(hi, lo), Sub(mx, lo)}, g)
	case *Slice:
		lo, hi := get(x.Low, BV(64, 0)), get(x.High, xv.len)
		mx := get(x.Max, xv.cap)
		g = w.rtPanic(f, g, Or(Slt(hi, lo), Slt(lo, BV(64, 0)), Slt(mx, hi), Slt(xv.cap, mx)), "slice bounds out of range", x.Pos())
		f.set(x, &Slice{xv.arr, Add(xv.off, lo), Sub(hi, lo), Sub(mx, lo)}, g)
	default:
		panic("cannot encode: slice of " + x.X.Type().String())
	}
	return g
}

// elemPtr returns a pointer to element idx (absolute, i.e. including the slice offset) of the arrays in base.
func (w *W) elemPtr(base *Ptr, idx *Term, maxn int) *Ptr {
	out := &Ptr{}
	for _, a := range base.alts {
		if a.l == nil {
			continue
		}
		n := maxn
		if a.l.obj.n > 0 && (a.l.path == "" || maxn == 0) {
			n = a.l.obj.n
		}
		for k := 0; k < n; k++ {
			gg := And(a.g, Eq(idx, BV(64, uint64(k))))
			if !gg.IsFalse() {
				out.alts = append(out.alts, PAlt{gg, mkLoc(a.l.obj, elemPath(a.l.path, k))})
			}
		}
	}
	return out
}

func (w *W) indexAddr(f *frame, x *ssa.IndexAddr, g *Term) *Term {
	idx := w.val(f, x.Index).(*Term)
	if isUnsigned(x.Index.Type()) {
		idx = Zext(idx, 64)
	} else {
		idx = Sext(idx, 64)
	}
	switch xv := w.val(f, x.X).(type) {
	case *Slice:
		g = w.rtPanic(f, g, Not(Ult(idx, xv.len)), "index out of range", x.Pos())
		f.set(x, w.elemPtr(xv.arr, Add(xv.off, idx), 0), g)
	case *Ptr:
		at := x.X.Type().Underlying().(*types.Pointer).Elem().Underlying().(*types.Array)
		g = w.rtPanic(f, g, xv.isNil(), "nil pointer dereference", x.Pos())
		g = w.rtPanic(f, g, Not(Ult(idx, BV(64, uint64(at.Len())))), "index out of range", x.Pos())
		f.set(x, w.elemPtr(xv, idx, int(at.Len())), g)
	default:
		panic("cannot encode: IndexAddr")
	}
	return g
}

// ---------------- publication tracking (pass 1 only): an object is unpublished while only its allocating
// goroutine can reach it; accesses to unpublished objects are not race candidates.
func (w *W) publishThrough(target *Ptr, v Value) {
	pub := false
	for _, a := range target.alts {
		if a.l != nil && (a.l.obj.published || strings.HasPrefix(a.l.obj.key, "G:")) {
			pub = true
		}
	}
	if pub {
		w.publish(v)
	}
}

func (w *W) publish(v Value) {
	switch x := v.(type) {
	case *Ptr:
		for _, a := range x.alts {
			if a.l != nil {
				w.publishObj(a.l.obj)
			}
		}
	case *Iface:
		for _, a := range x.alts {
			if a.typ != nil {
				w.publish(a.val)
			}
		}
	case *Func:
		for _, a := range x.alts {
			for _, e := range a.env {
				w.publish(e)
			}
			if a.iobj != nil {
				w.publishObj(a.iobj)
			}
		}
	case *Slice:
		w.publish(x.arr)
	case *Struct:
		for _, e := range x.f {
			w.publish(e)
		}
	}
}

func (w *W) publishObj(o *Object) {
	if o.published {
		return
	}
	o.published = true
	for _, v := range o.cells {
		w.publish(v)
	}
}

func diagLeaves(t *Term) string {
	m := map[int]*Term{}
	badLeaves(t, m)
	s := " non-constant leaves:"
	var culprit func(t *Term, depth int) *Term
	culprit = func(t *Term, depth int) *Term {
		if _, ok := enumLeaves(t); ok {
			return nil
		}
		for _, a := range t.args {
			if t.op == OIte && a == t.args[0] {
				continue
			}
			if c := culprit(a, depth+1); c != nil {
				return c
			}
		}
		return t
	}
	if c := culprit(t, 0); c != nil {
		s += " CULPRIT: " + c.str(3)
		for _, a := range c.args {
			ls, ok := enumLeaves(a)
			s += fmt.Sprintf(" {ok=%v n=%d}", ok, len(ls.vals))
		}
	}
	for _, x := range m {
		for _, a := range x.args {
			ls, ok := enumLeaves(a)
			s += fmt.Sprintf(" {arg leaves ok=%v n=%d vals=%v}", ok, len(ls.vals), ls.vals)
		}
		s += " " + x.str(3)
		if x.op == OAdd || x.op == OSlt {
			mm := map[int]*Term{}
			for _, a := range x.args {
				badLeaves(a, mm)
			}
			for _, y := range mm {
				s += " [" + y.str(3) + "]"
			}
		}
	}
	return s
}

// cellLabel names a memory cell by the type and field it belongs to (e.g. "Response.res", "Node.next"),
// falling back to the allocation site.
func cellLabel(l *Loc) string {
	t := l.obj.typ
	path := l.path
	var parts []string
	tn := ""
	for path != "" && t != nil {
		if n, ok := types.Unalias(t).(*types.Named); ok {
			tn = n.Obj().Name()
			parts = nil
		}
		if path[0] == '.' {
			j := 1
			for j < len(path) && path[j] >= '0' && path[j] <= '9' {
				j++
			}
			var idx int
			fmt.Sscanf(path[1:j], "%d", &idx)
			st, ok := t.Underlying().(*types.Struct)
			if !ok || idx >= st.NumFields() {
				return l.obj.name + l.path
			}
			parts = append(parts, st.Field(idx).Name())
			t = st.Field(idx).Type()
			path = path[j:]
		} else if path[0] == '[' {
			j := strings.Index(path, "]")
			switch u := t.Underlying().(type) {
			case *types.Array:
				t = u.Elem()
			default:
				// element of a slice-backed array object: the object's type is the element type
			}
			parts = append(parts, "[]")
			path = path[j+1:]
		} else {
			break
		}
	}
	if tn == "" {
		return l.obj.name + l.path
	}
	return tn + "." + strings.Join(parts, ".")
}
