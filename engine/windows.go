package main

import (
	"encoding/json"
	"fmt"
	"os"
	"strings"
)

// ---------------- known-finding windows
//
// A window is "some goroutine stands between an operation matching After and its next operation
// matching Before while another goroutine executes an operation matching Intruder". Operations are
// named by enclosing function and operation kind (which includes the field name of the cell), never
// by line number.
type opPattern struct {
	Fn   string `json:"fn"`
	Kind string `json:"kind"`
}

func (p opPattern) match(fn, kind string) bool {
	if p.Fn == "" && p.Kind == "" {
		return false
	}
	for _, part := range strings.Split(p.Fn, "&") {
		if !strings.Contains(fn, part) {
			return false
		}
	}
	return strings.Contains(kind, p.Kind)
}

type windowSpec struct {
	Name       string    `json:"name"`
	Obligation string    `json:"obligation"`
	After      opPattern `json:"after"`
	Before     opPattern `json:"before"`
	Intruder   opPattern `json:"intruder"`
	inWin      map[int]*Term
	hit        *Term
}

func (w *W) loadWindows(file string) {
	b, err := os.ReadFile(file)
	if err != nil {
		panic(err)
	}
	var ws []*windowSpec
	if err := json.Unmarshal(b, &ws); err != nil {
		panic(err)
	}
	for _, s := range ws {
		s.reset()
	}
	w.windows = ws
}

func (ws *windowSpec) reset() {
	ws.inWin = map[int]*Term{}
	ws.hit = False
	if ws.After == (opPattern{}) && ws.Before == (opPattern{}) && ws.Intruder == (opPattern{}) {
		ws.hit = True // the whole obligation is the listed finding (a specific input or configuration)
	}
}

func (ws *windowSpec) observe(w *W, t *Thread, o0 opSpec, exec *Term) {
	fn := strings.Join(w.curFn, ">")
	o := o0
	if o.label != "" {
		o.kind = o.kind + "(" + o.label + ")"
	}
	if ws.Intruder.match(fn, o.kind) {
		others := False
		for tid, in := range ws.inWin {
			if tid != t.id {
				others = Or(others, in)
			}
		}
		ws.hit = Or(ws.hit, And(exec, others))
	}
	cur, ok := ws.inWin[t.id]
	if !ok {
		cur = False
	}
	if ws.Before.match(fn, o.kind) {
		cur = And(cur, Not(exec))
	}
	if ws.After.match(fn, o.kind) {
		cur = Or(cur, exec)
	}
	ws.inWin[t.id] = cur
}

// ---------------- race candidates (C19)
type raceCand struct {
	thread int
	cell   string
	label  string
	write  bool
	at     *Term
	pos    string
}

type RaceRes struct {
	Cell string `json:"cell"`
	A    string `json:"a"`
	B    string `json:"b"`
}


func (w *W) noteRaceCand(t *Thread, o opSpec, at *Term) {
	for i, c := range o.cells {
		g := And(at, o.cellG[i])
		if g.IsFalse() {
			continue
		}
		w.races = append(w.races, raceCand{thread: t.id, cell: c, label: o.cellLabel[i], write: o.write, at: g, pos: w.pos(o.pos)})
	}
}

// raceObligations builds one obligation per cell label: two goroutines stand before conflicting accesses.
func (w *W) raceObligations() {
	byCell := map[string][]raceCand{}
	for _, r := range w.races {
		byCell[r.cell] = append(byCell[r.cell], r)
	}
	for _, rs := range byCell {
		for i := range rs {
			for j := i + 1; j < len(rs); j++ {
				a, b := rs[i], rs[j]
				if a.thread == b.thread || !(a.write || b.write) {
					continue
				}
				id := fmt.Sprintf("race[%s]", a.label)
				w.addViol(id, And(a.at, b.at, Not(w.crashed)), a.pos+" / "+b.pos)
			}
		}
	}
}
