package helpers

// ---- C05 (mechanism): the stream of a batch is created with room for one value per item, so that no item's Send
// can block behind an undrained stream (batch Wait would then never return): for every requested size n in
// {0, 512, ..., 4096} NewResponse(n) has a buffer of exactly n.
func H_C05_response_buffer() {
	n := vNondetRange(0, 8) * 512
	r := NewResponse[int](n)
	vAssert("C05.response-buffer.holds-the-batch", cap(r.ch) == n)
	vReach("C05.response-buffer.end")
}
