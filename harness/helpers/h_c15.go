package helpers

// C15 — the manager's three selectors against their specification, for all lengths of up to three
// registered items and every cursor history.
type hItem struct{ n int }

func (h *hItem) Len() int { return h.n }

func H_C15_manager() {
	m := CreateManager[*hItem]()
	k := vNondetRange(1, 3)
	a, b, c := &hItem{}, &hItem{}, &hItem{}
	la, lb, lc := vNondetRange(0, 3), vNondetRange(0, 3), vNondetRange(0, 3)
	a.n, b.n, c.n = la, lb, lc
	m.Register(a)
	if k >= 2 {
		m.Register(b)
	} else {
		lb = 0
	}
	if k >= 3 {
		m.Register(c)
	} else {
		lc = 0
	}
	vAssert("C15.count", m.Count() == k)
	vAssert("C15.len-sum", m.Len() == la+lb+lc)
	allEmpty := la == 0 && lb == 0 && lc == 0
	// MaxLen: a maximal element, error iff all empty
	mx, err := m.GetMaxLenItem()
	if allEmpty {
		vAssert("C15.maxlen-empty", err == ErrAllItemsEmpty)
	} else {
		vAssert("C15.maxlen", err == nil && mx.n >= la && mx.n >= lb && mx.n >= lc)
	}
	// MinLen: minimal among the non-empty ones
	mn, err2 := m.GetMinLenItem()
	if allEmpty {
		vAssert("C15.minlen-empty", err2 == ErrAllItemsEmpty)
	} else {
		vAssert("C15.minlen", err2 == nil && mn.n > 0 && (la == 0 || mn.n <= la) && (lb == 0 || mn.n <= lb) && (lc == 0 || mn.n <= lc))
	}
	// RoundRobin: after h prior calls the cursor is somewhere; the next two picks visit the non-empty items cyclically
	h := vNondetRange(0, 2)
	for i := 0; i < 2; i++ {
		if i < h {
			m.GetRoundRobinItem()
		}
	}
	x1, e1 := m.GetRoundRobinItem()
	x2, e2 := m.GetRoundRobinItem()
	x3, e3 := m.GetRoundRobinItem()
	if allEmpty {
		vAssert("C15.rr-empty", e1 == ErrAllItemsEmpty && e2 == ErrAllItemsEmpty)
	} else {
		vAssert("C15.rr-nonempty", e1 == nil && e2 == nil && e3 == nil && x1.n > 0 && x2.n > 0 && x3.n > 0)
		nonEmpty := 0
		if la > 0 {
			nonEmpty++
		}
		if lb > 0 {
			nonEmpty++
		}
		if lc > 0 {
			nonEmpty++
		}
		// fairness: with n non-empty items, n consecutive picks are pairwise distinct
		if nonEmpty >= 2 {
			vAssert("C15.rr-fair2", x1 != x2 && x2 != x3)
		}
		if nonEmpty == 3 {
			vAssert("C15.rr-fair3", x1 != x3)
		}
		if nonEmpty == 2 {
			vAssert("C15.rr-cycle2", x1 == x3)
		}
		// binding order: the successor of a is b (if non-empty) else c
		if x1 == a && lb > 0 {
			vAssert("C15.rr-order", x2 == b)
		}
		if x1 == b && lc > 0 {
			vAssert("C15.rr-order2", x2 == c)
		}
	}
	vReach("C15.manager.end")
}
