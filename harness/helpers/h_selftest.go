package helpers

// Translator self-test: the inputs and expected outputs of the repository's own unit tests (manager_test.go,
// wg_counter_test.go, response_test.go), executed through the encoder. Everything is concrete, so every
// assertion must simplify to "holds" during encoding; the same functions are compiled natively for the replay
// build, where the Go compiler's semantics decide. A difference is an encoder bug.
func H_selftest_helpers() {
	m := CreateManager[*hItem]()
	_, err := m.GetRoundRobinItem()
	vAssert("selftest.manager.empty-rr", err == ErrNoItemsRegistered)
	_, err = m.GetMaxLenItem()
	vAssert("selftest.manager.empty-max", err == ErrNoItemsRegistered)
	i1, i2, i3, i4 := &hItem{3}, &hItem{5}, &hItem{2}, &hItem{7}
	m.Register(i1)
	r, err := m.GetRoundRobinItem()
	vAssert("selftest.manager.rr1", err == nil && r == i1)
	m.Register(i2)
	m.Register(i3)
	vAssert("selftest.manager.count3", m.Count() == 3 && m.Len() == 10)
	r1, _ := m.GetRoundRobinItem()
	r2, _ := m.GetRoundRobinItem()
	r3, _ := m.GetRoundRobinItem()
	r4, _ := m.GetRoundRobinItem()
	vAssert("selftest.manager.rr-cycle", r1 == i1 && r2 == i2 && r3 == i3 && r4 == i1)
	mn, _ := m.GetMinLenItem()
	vAssert("selftest.manager.min", mn == i3)
	m.Register(i4)
	mx, _ := m.GetMaxLenItem()
	vAssert("selftest.manager.max", mx == i4)
	e := CreateManager[*hItem]()
	e.Register(&hItem{0})
	e.Register(&hItem{0})
	_, e1 := e.GetRoundRobinItem()
	_, e2 := e.GetMaxLenItem()
	_, e3 := e.GetMinLenItem()
	vAssert("selftest.manager.all-empty", e1 == ErrAllItemsEmpty && e2 == ErrAllItemsEmpty && e3 == ErrAllItemsEmpty)

	w := NewWgCounter(3)
	vAssert("selftest.wgc.init", w.Count() == 3)
	w.Done()
	w.Done()
	vAssert("selftest.wgc.two", w.Count() == 1)
	last := w.Done()
	vAssert("selftest.wgc.zero", w.Count() == 0 && last)
	w.Done()
	w.Done()
	vAssert("selftest.wgc.safety", w.Count() == 0)
	w.Wait()

	rs := NewResponse[int](1)
	rs.Send(42)
	rs.Close()
	vAssert("selftest.response.stored", rs.Response() == 42)
	v2 := rs.Response()
	vAssert("selftest.response.after-close", v2 == 42)
	_, ok := <-rs.Read()
	vAssert("selftest.response.closed", !ok)
	vReach("selftest.helpers.end")
}
