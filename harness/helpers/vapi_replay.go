package helpers

import vsched "github.com/goptics/varmq/internal/zzverif/vsched"

// Native bodies of the harness API for replay builds (the encoder sees vapi.go instead).

func vNondetInt() int           { return vsched.NondetInt() }
func vNondetRange(lo, hi int) int { return vsched.NondetInt() }
func vNondetBool() bool         { return vsched.NondetBool() }
func vNondetUint8() uint8       { return vsched.NondetUint8() }
func vNondetString() string     { return vsched.NondetString() }
func vAssume(c bool)            { vsched.Assume(c) }
func vPrologueEnd()             {}
func vLibGoroutinesAlive() int  { return vsched.LibGoroutinesAlive() }
func vAssert(id string, c bool) { vsched.Assert(id, c) }
func vReach(id string)          { vsched.Reach(id) }
func vAtQuiescence(f func())    { vsched.AtQuiescence(f) }
func vAtAnyCut(f func())        { vsched.AtAnyCut(f) }
