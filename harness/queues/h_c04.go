package queues

// C04 — dispatch order of the two in-memory queue types, decided over all inputs within the bounds.

// refFIFO / refPQ: the reference models (slice + stable minimum).
type refItem struct {
	v, p, seq int
}

// H_C04_fifo_diff: a symbolic sequence of L operations over {Enqueue, Dequeue, Purge} with scaled
// segment capacities (first segment c0 in 1..2, maximum cmax in c0..3), real queue vs reference.
func H_C04_fifo_diff() {
	c0 := vNondetRange(1, 2)
	cmax := vNondetRange(2, 3)
	initialBufferCapacity = c0
	chunkMaxCapacity = cmax
	q := NewQueue[int]()
	var ref [6]int
	head, tail := 0, 0 // reference queue = ref[head:tail]
	for i := 0; i < 6; i++ {
		op := vNondetRange(0, 2)
		switch op {
		case 0:
			v := vNondetInt()
			ok := q.Enqueue(v)
			vAssert("C04.fifo.enqueue-accepts", ok)
			ref[tail] = v
			tail++
		case 1:
			x, ok := q.Dequeue()
			if head == tail {
				vAssert("C04.fifo.dequeue-empty", !ok)
			} else {
				vAssert("C04.fifo.dequeue-order", ok && x.(int) == ref[head])
				head++
			}
		case 2:
			q.Purge()
			head = tail
		}
		vAssert("C04.fifo.len", q.Len() == tail-head)
	}
	vReach("C04.fifo.end")
}

// before(p1,s1,p2,s2): item 1 must be handed out before item 2 (lower priority number first, ties by acceptance order)
func before(p1, s1, p2, s2 int) bool { return p1 < p2 || (p1 == p2 && s1 < s2) }

// H_C04_pq3: three items with symbolic 64-bit priorities, dequeued after all are enqueued: the order is the
// stable sort by priority; then the queue is purged and reused (insertion order keeps counting).
func H_C04_pq3() {
	q := NewPriorityQueue[int]()
	p0, p1, p2 := vNondetInt(), vNondetInt(), vNondetInt()
	q.Enqueue(0, p0)
	q.Enqueue(1, p1)
	q.Enqueue(2, p2)
	vAssert("C04.pq3.len3", q.Len() == 3)
	x, ok1 := q.Dequeue()
	y, ok2 := q.Dequeue()
	z, ok3 := q.Dequeue()
	_, ok4 := q.Dequeue()
	vAssert("C04.pq3.oks", ok1 && ok2 && ok3 && !ok4)
	a, b, c := x.(int), y.(int), z.(int)
	vAssert("C04.pq3.permutation", a != b && b != c && a != c && 0 <= a && a <= 2 && 0 <= b && b <= 2 && 0 <= c && c <= 2)
	pr := func(i int) int {
		if i == 0 {
			return p0
		}
		if i == 1 {
			return p1
		}
		return p2
	}
	vAssert("C04.pq3.sorted", before(pr(a), a, pr(b), b) && before(pr(b), b, pr(c), c))
	// purge and reuse: ties still resolve by acceptance order
	q.Enqueue(7, p0)
	q.Purge()
	vAssert("C04.pq3.purged", q.Len() == 0)
	q.Enqueue(3, p1)
	q.Enqueue(4, p1)
	u, _ := q.Dequeue()
	v, _ := q.Dequeue()
	vAssert("C04.pq3.ties-after-purge", u.(int) == 3 && v.(int) == 4)
	vReach("C04.pq3.end")
}

// H_C04_pq_interleaved: enqueue/dequeue interleaved; each dequeue returns the minimum of what is pending.
func H_C04_pq_interleaved() {
	q := NewPriorityQueue[int]()
	p0, p1, p2, p3 := vNondetInt(), vNondetInt(), vNondetInt(), vNondetInt()
	q.Enqueue(0, p0)
	q.Enqueue(1, p1)
	x, _ := q.Dequeue() // min of {0,1}
	first := 1
	if before(p0, 0, p1, 1) {
		first = 0
	}
	vAssert("C04.pqi.first", x.(int) == first)
	rest, prest := 1-first, p1
	if first == 1 {
		prest = p0
	}
	q.Enqueue(2, p2)
	q.Enqueue(3, p3)
	y, _ := q.Dequeue() // min of {rest,2,3}
	want := rest
	pw := prest
	if before(p2, 2, pw, want) {
		want, pw = 2, p2
	}
	if before(p3, 3, pw, want) {
		want, pw = 3, p3
	}
	vAssert("C04.pqi.second", y.(int) == want)
	vAssert("C04.pqi.len", q.Len() == 2)
	vReach("C04.pqi.end")
}

// H_C04_growth: the segment growth rule never yields a segment that cannot take the item that did not
// fit: 1 <= c <= min(c + c/2, max) <= max for all 64-bit 1 <= c <= max without wrap-around.
func H_C04_growth() {
	c, max := vNondetInt(), vNondetInt()
	vAssume(1 <= c && c <= max && max <= 1<<40)
	n := min(c+c/2, max)
	vAssert("C04.growth.bounds", c <= n && n <= max && n >= 1)
	vReach("C04.growth.end")
}
