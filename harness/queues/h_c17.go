package queues

// C17 — Len() of the in-memory queues stays within [0, accepted] under any interleaving.
func H_C17_len_fifo() {
	initialBufferCapacity = 2
	chunkMaxCapacity = 3
	q := NewQueue[int]()
	go func() {
		q.Enqueue(7)
		q.Dequeue()
		q.Enqueue(8)
	}()
	go func() {
		n := q.Len()
		vAssert("C17.len.fifo-range", 0 <= n && n <= 2)
	}()
	vAtQuiescence(func() {
		vReach("C17.len.fifo.quiescent")
		vAssert("C17.len.fifo-exact-at-rest", q.Len() == 1)
	})
}

func H_C17_len_fifo_purge() {
	initialBufferCapacity = 2
	chunkMaxCapacity = 3
	q := NewQueue[int]()
	q.Enqueue(1)
	q.Enqueue(2)
	q.Dequeue()
	go func() {
		q.Purge()
		q.Enqueue(3)
	}()
	go func() {
		n := q.Len()
		vAssert("C17.len.fifo-purge-range", 0 <= n && n <= 3)
	}()
	vAtQuiescence(func() {
		vReach("C17.len.fifo-purge.quiescent")
		vAssert("C17.len.fifo-purge-exact-at-rest", q.Len() == 1)
	})
}

func H_C17_len_pq() {
	q := NewPriorityQueue[int]()
	go func() {
		q.Enqueue(7, 1)
		q.Dequeue()
		q.Enqueue(8, 0)
	}()
	go func() {
		n := q.Len()
		vAssert("C17.len.pq-range", 0 <= n && n <= 2)
	}()
	vAtQuiescence(func() {
		vReach("C17.len.pq.quiescent")
		vAssert("C17.len.pq-exact-at-rest", q.Len() == 1)
	})
}

// Purge racing with Enqueue: at rest Len() equals the number of items that can actually be dequeued.
func H_C17_purge_vs_enqueue() {
	initialBufferCapacity = 2
	chunkMaxCapacity = 3
	q := NewQueue[int]()
	q.Enqueue(1)
	go func() { q.Purge() }()
	go func() { q.Enqueue(9) }()
	vAtQuiescence(func() {
		vReach("C17.purge-enq.quiescent")
		n := q.Len()
		c := 0
		for i := 0; i < 3; i++ {
			if _, ok := q.Dequeue(); ok {
				c++
			}
		}
		vAssert("C17.len-exact-after-purge-race", n == c && n >= 0)
		vAssert("C17.len-zero-after-drain", q.Len() == 0)
	})
}
