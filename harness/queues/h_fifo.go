package queues

func H_fifo_seq() {
	initialBufferCapacity = 1
	chunkMaxCapacity = 2
	q := NewQueue[int]()
	a, b, c := vNondetInt(), vNondetInt(), vNondetInt()
	q.Enqueue(a)
	q.Enqueue(b)
	x, ok1 := q.Dequeue()
	q.Enqueue(c)
	y, ok2 := q.Dequeue()
	z, ok3 := q.Dequeue()
	_, ok4 := q.Dequeue()
	vAssert("fifo.ok", ok1 && ok2 && ok3 && !ok4)
	vAssert("fifo.order", x.(int) == a && y.(int) == b && z.(int) == c)
	vAssert("fifo.len0", q.Len() == 0)
	vAssert("fifo.bogus", x.(int) == b)
}

func H_len_conc() {
	initialBufferCapacity = 2
	chunkMaxCapacity = 3
	q := NewQueue[int]()
	go func() { q.Enqueue(7); q.Dequeue() }()
	go func() { n := q.Len(); vAssert("len.nonneg", n >= 0) }()
}
