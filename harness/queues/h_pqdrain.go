package queues

// H_C04_pq_drain: three items, a dequeue, a fourth item, then the queue is drained - all priorities symbolic
// (64 bit). The first dequeue hands out the minimum of the first three; the drain hands out the remaining
// three in (priority, acceptance order): acceptance order keeps counting across the interleaved dequeue.
func H_C04_pq_drain() {
	q := NewPriorityQueue[int]()
	p0, p1, p2, p3 := vNondetInt(), vNondetInt(), vNondetInt(), vNondetInt()
	pr := func(i int) int {
		switch i {
		case 0:
			return p0
		case 1:
			return p1
		case 2:
			return p2
		}
		return p3
	}
	q.Enqueue(0, p0)
	q.Enqueue(1, p1)
	q.Enqueue(2, p2)
	x, ok1 := q.Dequeue()
	q.Enqueue(3, p3)
	y, ok2 := q.Dequeue()
	z, ok3 := q.Dequeue()
	u, ok4 := q.Dequeue()
	_, ok5 := q.Dequeue()
	vAssert("C04.pqdrain.oks", ok1 && ok2 && ok3 && ok4 && !ok5)
	a, b, c, d := x.(int), y.(int), z.(int), u.(int)
	vAssert("C04.pqdrain.permutation", 0 <= a && a <= 2 && 0 <= b && b <= 3 && 0 <= c && c <= 3 && 0 <= d && d <= 3 &&
		a != b && a != c && a != d && b != c && b != d && c != d)
	first := 0
	if before(p1, 1, pr(first), first) {
		first = 1
	}
	if before(p2, 2, pr(first), first) {
		first = 2
	}
	vAssert("C04.pqdrain.first-is-min-of-three", a == first)
	vAssert("C04.pqdrain.rest-sorted", before(pr(b), b, pr(c), c) && before(pr(c), c, pr(d), d))
	vReach("C04.pqdrain.end")
}

// H_C04_pq_drain2: dequeues interleaved with every enqueue (E,E,D,E,D,E,D,D): each dequeue hands out the minimum
// of what is pending at that moment, ties by acceptance order.
func H_C04_pq_drain2() {
	q := NewPriorityQueue[int]()
	p0, p1, p2, p3 := vNondetInt(), vNondetInt(), vNondetInt(), vNondetInt()
	pr := func(i int) int {
		switch i {
		case 0:
			return p0
		case 1:
			return p1
		case 2:
			return p2
		}
		return p3
	}
	q.Enqueue(0, p0)
	q.Enqueue(1, p1)
	x, _ := q.Dequeue()
	a := x.(int)
	wa := 0
	if before(p1, 1, p0, 0) {
		wa = 1
	}
	vAssert("C04.pqdrain2.first", a == wa)
	r1 := 1 - wa // still pending
	q.Enqueue(2, p2)
	y, _ := q.Dequeue()
	b := y.(int)
	wb := r1
	if before(p2, 2, pr(r1), r1) {
		wb = 2
	}
	vAssert("C04.pqdrain2.second", b == wb)
	r2 := r1 + 2 - wb // the other one of {r1, 2}
	q.Enqueue(3, p3)
	z, _ := q.Dequeue()
	c := z.(int)
	wc := r2
	if before(p3, 3, pr(r2), r2) {
		wc = 3
	}
	vAssert("C04.pqdrain2.third", c == wc)
	u, ok := q.Dequeue()
	vAssert("C04.pqdrain2.last", ok && u.(int) == r2+3-wc && q.Len() == 0)
	vReach("C04.pqdrain2.end")
}
