package queues

// Translator self-test on the queue types with the inputs of queue_test.go / priority_test.go (scaled
// segment capacities), all concrete: every assertion must fold to "holds" while encoding.
func H_selftest_queues() {
	initialBufferCapacity = 2
	chunkMaxCapacity = 3
	q := NewQueue[int]()
	for i := 0; i < 7; i++ {
		vAssert("selftest.queue.enqueue", q.Enqueue(i*10))
	}
	vAssert("selftest.queue.len7", q.Len() == 7)
	vals := q.Values()
	vAssert("selftest.queue.values", len(vals) == 7 && vals[0].(int) == 0 && vals[6].(int) == 60)
	for i := 0; i < 7; i++ {
		v, ok := q.Dequeue()
		vAssert("selftest.queue.dequeue", ok && v.(int) == i*10)
	}
	_, ok := q.Dequeue()
	vAssert("selftest.queue.empty", !ok && q.Len() == 0)
	q.Enqueue(1)
	q.Purge()
	vAssert("selftest.queue.purged", q.Len() == 0)
	q.Close()
	vAssert("selftest.queue.closed-rejects", !q.Enqueue(5))

	pq := NewPriorityQueue[string]()
	pq.Enqueue("low", 3)
	pq.Enqueue("high", 1)
	pq.Enqueue("mid", 2)
	pq.Enqueue("high2", 1)
	a, _ := pq.Dequeue()
	b, _ := pq.Dequeue()
	c, _ := pq.Dequeue()
	d, _ := pq.Dequeue()
	vAssert("selftest.pq.order", a.(string) == "high" && b.(string) == "high2" && c.(string) == "mid" && d.(string) == "low")
	_, ok = pq.Dequeue()
	vAssert("selftest.pq.empty", !ok)
	vAssert("selftest.pq.wrong-type", !pq.Enqueue(5, 1))
	vReach("selftest.queues.end")
}
