package varmq

import "sync"

// hAdapter: a harness-side implementation of the persistent / distributed adapter interfaces
// (IPersistentQueue, IPersistentPriorityQueue, IDistributedQueue, IDistributedPriorityQueue) with a
// delivery log. It is encoded from its own SSA like any other code. All methods take the adapter's
// mutex, which makes every adapter call a scheduling point (and a possible crash point).
type hAdapter struct {
	mx      sync.Mutex
	items   [3]any
	prio    [3]int
	n       int     // entries ever stored
	taken   [3]bool // dequeued (delivered)
	issued  [3]bool // an ack id was issued for this entry
	acked   [3]int  // number of acknowledgements received
	badAck  bool    // an ack id that was never issued, or acknowledged twice
	closed  bool
	failEnq, failDeq, failAck bool // fault switches (one-shot)
	sub     func(action string)
	byPrio  bool
	noNotify bool
}

func hAckId(i int) string {
	switch i {
	case 0:
		return "ack-0"
	case 1:
		return "ack-1"
	default:
		return "ack-2"
	}
}

func (a *hAdapter) pendingLocked() int {
	c := 0
	for i := 0; i < 3; i++ {
		if i < a.n && !a.taken[i] {
			c++
		}
	}
	return c
}

func (a *hAdapter) Len() int {
	a.mx.Lock()
	defer a.mx.Unlock()
	return a.pendingLocked()
}

func (a *hAdapter) store(item any, p int) bool {
	if a.closed || a.n >= 3 {
		return false
	}
	if a.failEnq {
		a.failEnq = false
		return false
	}
	a.items[a.n] = item
	a.prio[a.n] = p
	a.n++
	return true
}

func (a *hAdapter) Enqueue(item any) bool {
	a.mx.Lock()
	ok := a.store(item, 0)
	sub := a.sub
	a.mx.Unlock()
	if ok && sub != nil && !a.noNotify {
		sub("enqueued")
	}
	return ok
}

// hAdapterP is the priority flavour (Enqueue takes a priority).
type hAdapterP struct{ hAdapter }

func (a *hAdapterP) Enqueue(item any, p int) bool {
	a.mx.Lock()
	ok := a.store(item, p)
	sub := a.sub
	a.mx.Unlock()
	if ok && sub != nil && !a.noNotify {
		sub("enqueued")
	}
	return ok
}

func (a *hAdapter) next() int {
	best := -1
	for i := 0; i < 3; i++ {
		if i < a.n && !a.taken[i] {
			if best == -1 || (a.byPrio && a.prio[i] < a.prio[best]) {
				best = i
			}
		}
	}
	return best
}

func (a *hAdapter) Dequeue() (any, bool) {
	a.mx.Lock()
	defer a.mx.Unlock()
	i := a.next()
	if i < 0 {
		return nil, false
	}
	a.taken[i] = true
	return a.items[i], true
}

func (a *hAdapter) DequeueWithAckId() (any, bool, string) {
	a.mx.Lock()
	defer a.mx.Unlock()
	if a.failDeq {
		a.failDeq = false
		return nil, false, ""
	}
	i := a.next()
	if i < 0 {
		return nil, false, ""
	}
	a.taken[i] = true
	a.issued[i] = true
	return a.items[i], true, hAckId(i)
}

func (a *hAdapter) Acknowledge(id string) bool {
	a.mx.Lock()
	defer a.mx.Unlock()
	if a.failAck {
		a.failAck = false
		return false
	}
	hit := false
	for i := 0; i < 3; i++ {
		if id == hAckId(i) {
			hit = true
			if !a.issued[i] || a.acked[i] > 0 {
				a.badAck = true
			}
			a.acked[i]++
		}
	}
	if !hit {
		a.badAck = true
	}
	return true
}

func (a *hAdapter) Values() []any {
	a.mx.Lock()
	defer a.mx.Unlock()
	vals := make([]any, 0, 3)
	for i := 0; i < 3; i++ {
		if i < a.n && !a.taken[i] {
			vals = append(vals, a.items[i])
		}
	}
	return vals
}

func (a *hAdapter) Purge() {
	a.mx.Lock()
	defer a.mx.Unlock()
	for i := 0; i < 3; i++ {
		if i < a.n {
			a.taken[i] = true
		}
	}
}

func (a *hAdapter) Close() error {
	a.mx.Lock()
	defer a.mx.Unlock()
	a.closed = true
	return nil
}

func (a *hAdapter) Subscribe(fn func(action string)) {
	a.mx.Lock()
	defer a.mx.Unlock()
	a.sub = fn
}
