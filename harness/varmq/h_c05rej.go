package varmq

import "github.com/goptics/varmq/internal/queues"

// ---- C05 / C08: a batch submitted to a CLOSED plain queue (every item rejected): the batch handle's Wait returns
// and nothing stays pending, on both in-memory queue kinds.
func H_C05_rejected_plain_fifo() {
	w, q := mWorker(func(j Job[int]) {}, 1, 1)
	q.Close()
	g := q.AddAll(hRejItems)
	vAssert("C05.rejected.plain-fifo.numpending", g.NumPending() == 0 && w.NumPending() == 0)
	vPrologueEnd()
	waited := false
	go func() {
		g.Wait()
		waited = true
	}()
	vAtQuiescence(func() {
		vReach("C05.rejected.plain-fifo.quiescent")
		vAssert("C05.rejected.plain-fifo.wait-returns", waited)
	})
}

func H_C05_rejected_plain_pq() {
	wb := NewWorker(func(j Job[int]) {}, 1).(*workerBinder[int])
	q := newPriorityQueue(wb.worker, queues.NewPriorityQueue[iJob[int]]())
	q.Close()
	g := q.AddAll(hRejItems)
	vAssert("C05.rejected.plain-pq.numpending", g.NumPending() == 0 && wb.worker.NumPending() == 0)
	vPrologueEnd()
	waited := false
	go func() {
		g.Wait()
		waited = true
	}()
	vAtQuiescence(func() {
		vReach("C05.rejected.plain-pq.quiescent")
		vAssert("C05.rejected.plain-pq.wait-returns", waited)
	})
}

// ---- C05 / C08 (mechanism): the stream of a result / error batch is created with room for every item of the batch
// (helpers.NewResponse gives exactly the requested buffer: H_C05_response_buffer), so a finishing item never
// blocks on an undrained stream.
func H_C05_batch_stream_sized() {
	_, q := mResultWorker(func(j Job[int]) (int, error) { return 0, nil }, 1, 1)
	g := q.AddAll(hRejItems)
	vAssert("C05.batch-stream.sized-result", cap(g.Results()) == len(hRejItems))
	_, eq := mErrWorker(func(j Job[int]) error { return nil }, 1, 1)
	eg := eq.AddAll(hRejItems)
	vAssert("C05.batch-stream.sized-err", cap(eg.Errs()) == len(hRejItems))
	vPrologueEnd()
	vReach("C05.batch-stream.end")
}
