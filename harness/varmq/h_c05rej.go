package varmq

import "github.com/goptics/varmq/internal/queues"

// ---- C05 / C08: a batch submitted to a CLOSED plain queue (every item rejected): the batch handle's Wait returns
// and nothing stays pending, on both in-memory queue kinds.
func H_C05_rejected_plain_fifo() {
	w, q := mWorker(func(j Job[int]) {}, 1, 1)
	q.Close()
	g := q.AddAll(hRejItems)
	vAssert("C05.rejected.plain-fifo.numpending", g.NumPending() == 0 && w.NumPending() == 0)
	vPrologueEnd()
	waited := false
	go func() {
		g.Wait()
		waited = true
	}()
	vAtQuiescence(func() {
		vReach("C05.rejected.plain-fifo.quiescent")
		vAssert("C05.rejected.plain-fifo.wait-returns", waited)
	})
}

func H_C05_rejected_plain_pq() {
	wb := NewWorker(func(j Job[int]) {}, 1).(*workerBinder[int])
	q := newPriorityQueue(wb.worker, queues.NewPriorityQueue[iJob[int]]())
	q.Close()
	g := q.AddAll(hRejItems)
	vAssert("C05.rejected.plain-pq.numpending", g.NumPending() == 0 && wb.worker.NumPending() == 0)
	vPrologueEnd()
	waited := false
	go func() {
		g.Wait()
		waited = true
	}()
	vAtQuiescence(func() {
		vReach("C05.rejected.plain-pq.quiescent")
		vAssert("C05.rejected.plain-pq.wait-returns", waited)
	})
}
