package varmq

// ---- C06: the barrier does not sleep forever when the last pending job is a cancelled one: the dispatcher (REAL event loop) drops it
// (it never is in flight, so no completion follows) and the waiter's condition has become true.
func H_C06_wuf_cancelled() {
	runs := 0
	w, q := mWorkerLoop(func(j Job[int]) { runs++ }, 1, 1)
	j, _ := q.Add(0)
	cerr := j.Close()
	vAssert("C06.wuf-cancelled.cancel-ok", cerr == nil && w.NumPending() == 1)
	vPrologueEnd()
	returned := false
	go func() { w.WaitUntilFinished(); returned = true }()
	vAtQuiescence(func() {
		vReach("C06.wuf-cancelled.quiescent")
		vAssert("C06.wuf-cancelled.returns", returned)
		vAssert("C06.wuf-cancelled.not-run", runs == 0 && w.NumPending() == 0)
	})
}

// ---- C06: ... nor when the queue is purged while the barrier waits for it to drain (nothing in flight).
func H_C06_wuf_purged() {
	runs := 0
	w, q := mWorker(func(j Job[int]) { runs++ }, 1, 1)
	q.Add(0)
	vPrologueEnd()
	go func() { q.Purge() }()
	go func() { mDispatch(w) }()
	returned := false
	go func() { w.WaitUntilFinished(); returned = true }()
	vAtQuiescence(func() {
		vReach("C06.wuf-purged.quiescent")
		vAssert("C06.wuf-purged.returns", returned)
	})
}
