package varmq

import "github.com/goptics/varmq/internal/queues"

// ---- C07: every item of a result batch that carries no ID of its own gets its own value from the worker's ID
// generator, an explicit item ID is kept: the jobs the dispatcher will hand to the worker function carry
// generateGroupId(<that item's id>) (the generator returns a fresh value per call; the jobs are taken from the
// queue in order, as the dispatcher does).
func H_C07_batch_ids() {
	n := 0
	gen := func() string {
		n++
		switch n {
		case 1:
			return "g1"
		case 2:
			return "g2"
		case 3:
			return "g3"
		}
		return "g4"
	}
	wb := NewResultWorker(func(j Job[int]) (int, error) { return 0, nil }, 1, WithJobIdGenerator(gen)).(*resultWorkerBinder[int, int])
	w := wb.worker
	q := newResultQueue(w, queues.NewQueue[iResultJob[int, int]]())
	w.status.Store(running)
	q.AddAll([]Item[int]{{Data: 1}, {ID: "fixed", Data: 2}, {Data: 3}})
	vAssert("C07.batch-ids.generator-per-item", n == 3)
	next := func() iResultJob[int, int] {
		v, _ := q.internalQueue.Dequeue()
		return v.(iResultJob[int, int])
	}
	j1, j2, j3 := next(), next(), next()
	vAssert("C07.batch-ids.data", j1.Data() == 1 && j2.Data() == 2 && j3.Data() == 3)
	vAssert("C07.batch-ids.own-generated-id", j1.ID() == generateGroupId("g1") && j3.ID() == generateGroupId("g3"))
	vAssert("C07.batch-ids.explicit-kept", j2.ID() == generateGroupId("fixed"))
	vReach("C07.batch-ids.end")
}
