package varmq

// ---- C07: several goroutines read the outcome of the same handle concurrently (result worker, value or
// error chosen symbolically): every caller gets exactly what the worker function returned for that job.
func H_C07_two_readers() {
	k := vNondetRange(0, 1) // 0 = value, 1 = error
	d := vNondetInt()
	e := &hErr{}
	w, q := mResultWorker(func(j Job[int]) (int, error) {
		if k == 1 {
			return 0, e
		}
		return 3*j.Data() + 1, nil
	}, 1, 1)
	j, _ := q.Add(d, WithJobId("a"))
	mDispatch(w)
	vPrologueEnd()
	doneA, doneB := false, false
	go func() {
		r, err := j.Result()
		vAssert("C07.readers.a", (k == 0 && err == nil && r == 3*d+1) || (k == 1 && err == error(e)))
		doneA = true
	}()
	go func() {
		r, err := j.Result()
		vAssert("C07.readers.b", (k == 0 && err == nil && r == 3*d+1) || (k == 1 && err == error(e)))
		doneB = true
	}()
	vAtQuiescence(func() {
		vReach("C07.readers.quiescent")
		vAssert("C07.readers.both-return", doneA && doneB)
	})
}
