package varmq

// C08 — batches: one result per executed item, stream closed exactly once, no panic.

// M-groupclose: n item jobs of one result group finish concurrently (what the pool goroutines do
// after the worker function returned: sendResult, status finished, Close).
func H_C08_groupclose2() {
	g := newResultGroupJob[int, int](2)
	j1 := g.newJob(1, jobConfigs{Id: "a"})
	j2 := g.newJob(2, jobConfigs{Id: "b"})
	got, readerDone := 0, false
	go func() {
		j1.sendResult(10)
		j1.changeStatus(finished)
		j1.Close()
	}()
	go func() {
		j2.sendResult(20)
		j2.changeStatus(finished)
		j2.Close()
	}()
	go func() {
		for range g.Results() {
			got++
		}
		readerDone = true
	}()
	vAtQuiescence(func() {
		vReach("C08.m2.quiescent")
		vAssert("C08.m2.stream-closed", readerDone)
		vAssert("C08.m2.one-per-item", got == 2)
		vAssert("C08.m2.numpending-zero", g.NumPending() == 0)
	})
}

func H_C08_groupclose3() {
	g := newErrorGroupJob[int](3)
	j1 := g.newJob(1, jobConfigs{Id: "a"})
	j2 := g.newJob(2, jobConfigs{Id: "b"})
	j3 := g.newJob(3, jobConfigs{Id: "c"})
	readerDone := false
	go func() { j1.changeStatus(finished); j1.Close() }()
	go func() { j2.changeStatus(finished); j2.Close() }()
	go func() { j3.changeStatus(finished); j3.Close() }()
	go func() {
		for range g.Errs() {
		}
		readerDone = true
	}()
	vAtQuiescence(func() {
		vReach("C08.m3.quiescent")
		vAssert("C08.m3.stream-closed", readerDone)
		vAssert("C08.m3.numpending-zero", g.NumPending() == 0)
	})
}

// M-batch: AddAll of 2 items on a result worker with two pool goroutines; the dispatcher's step is driven twice.
func H_C08_batch2() {
	d0, d1 := vNondetInt(), vNondetInt()
	w, q := mResultWorker(func(j Job[int]) (int, error) { return j.Data() + 1, nil }, 2, 2)
	g := q.AddAll([]Item[int]{{ID: "a", Data: d0}, {ID: "b", Data: d1}})
	got, sum, readerDone, waited := 0, 0, false, false
	vPrologueEnd()
	go func() { // dispatcher (runs first in every round: -order)
		mDispatch(w)
		mDispatch(w)
	}()
	go func() {
		for r := range g.Results() {
			got++
			sum += r.Data
		}
		readerDone = true
	}()
	go func() {
		g.Wait()
		vAssert("C08.batch2.numpending-after-wait", g.NumPending() == 0)
		waited = true
	}()
	vAtQuiescence(func() {
		vReach("C08.batch2.quiescent")
		vAssert("C08.batch2.stream-closed", readerDone)
		vAssert("C08.batch2.one-per-item", got == 2)
		vAssert("C08.batch2.values", sum == d0+d1+2)
		vAssert("C08.batch2.wait-returns", waited)
	})
}

// Empty batch: the stream must still be closed (exactly once) and Wait must return.
func H_C08_batch0() {
	_, q := mResultWorker(func(j Job[int]) (int, error) { return j.Data() + 1, nil }, 1, 1)
	g := q.AddAll([]Item[int]{})
	got, readerDone, waited := 0, false, false
	go func() {
		for range g.Results() {
			got++
		}
		readerDone = true
	}()
	go func() {
		g.Wait()
		waited = true
	}()
	vAtQuiescence(func() {
		vReach("C08.batch0.quiescent")
		vAssert("C08.batch0.stream-closed", readerDone)
		vAssert("C08.batch0.no-results", got == 0)
		vAssert("C08.batch0.wait-returns", waited)
		vAssert("C08.batch0.numpending", g.NumPending() == 0)
	})
}

// C05 on batches: Wait on the batch handle returns once every item has finished (and not before).
func H_C05_batchwait() {
	g := newGroupJob[int](2)
	j1 := g.newJob(1, jobConfigs{Id: "a"})
	j2 := g.newJob(2, jobConfigs{Id: "b"})
	f1, f2, waited := false, false, false
	go func() { f1 = true; j1.changeStatus(finished); j1.Close() }()
	go func() { f2 = true; j2.changeStatus(finished); j2.Close() }()
	go func() {
		g.Wait()
		vAssert("C05.batch-wait-not-early", f1 && f2)
		waited = true
	}()
	vAtQuiescence(func() {
		vReach("C05.batchwait.quiescent")
		vAssert("C05.batch-wait-returns", waited)
		vAssert("C05.batch-numpending-zero", g.NumPending() == 0)
	})
}
