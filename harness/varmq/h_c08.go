package varmq

// C08 — batches: one result per executed item, stream closed exactly once, no panic.

// M-groupclose: n item jobs of one result group finish concurrently (what the pool goroutines do
// after the worker function returned: sendResult, status finished, Close).
func H_C08_groupclose2() {
	g := newResultGroupJob[int, int](2)
	j1 := g.newJob(1, jobConfigs{Id: "a"})
	j2 := g.newJob(2, jobConfigs{Id: "b"})
	got, readerDone := 0, false
	go func() {
		j1.sendResult(10)
		j1.changeStatus(finished)
		j1.Close()
	}()
	go func() {
		j2.sendResult(20)
		j2.changeStatus(finished)
		j2.Close()
	}()
	go func() {
		for range g.Results() {
			got++
		}
		readerDone = true
	}()
	vAtQuiescence(func() {
		vReach("C08.m2.quiescent")
		vAssert("C08.m2.stream-closed", readerDone)
		vAssert("C08.m2.one-per-item", got == 2)
		vAssert("C08.m2.numpending-zero", g.NumPending() == 0)
	})
}

func H_C08_groupclose3() {
	g := newErrorGroupJob[int](3)
	j1 := g.newJob(1, jobConfigs{Id: "a"})
	j2 := g.newJob(2, jobConfigs{Id: "b"})
	j3 := g.newJob(3, jobConfigs{Id: "c"})
	readerDone := false
	go func() { j1.changeStatus(finished); j1.Close() }()
	go func() { j2.changeStatus(finished); j2.Close() }()
	go func() { j3.changeStatus(finished); j3.Close() }()
	go func() {
		for range g.Errs() {
		}
		readerDone = true
	}()
	vAtQuiescence(func() {
		vReach("C08.m3.quiescent")
		vAssert("C08.m3.stream-closed", readerDone)
		vAssert("C08.m3.numpending-zero", g.NumPending() == 0)
	})
}

// E-batch: AddAll of n items (n symbolic in [0,2]) on a result worker with concurrency 2.
func H_C08_batch() {
	n := vNondetInt()
	vAssume(0 <= n && n <= 2)
	d0, d1 := vNondetInt(), vNondetInt()
	w := NewResultWorker(func(j Job[int]) (int, error) { return j.Data() + 1, nil }, 2)
	q := w.BindQueue()
	items := make([]Item[int], 2)
	items[0] = Item[int]{ID: "a", Data: d0}
	items[1] = Item[int]{ID: "b", Data: d1}
	g := q.AddAll(items[:n])
	got, sum, readerDone, waited := 0, 0, false, false
	go func() {
		for r := range g.Results() {
			got++
			sum += r.Data
		}
		readerDone = true
	}()
	go func() {
		g.Wait()
		vAssert("C08.batch.numpending-after-wait", g.NumPending() == 0)
		waited = true
	}()
	vAtQuiescence(func() {
		vReach("C08.batch.quiescent")
		vAssert("C08.batch.stream-closed", readerDone)
		vAssert("C08.batch.one-per-item", got == n)
		vAssert("C08.batch.values", (n != 2 || sum == d0+d1+2) && (n != 1 || sum == d0+1))
		vAssert("C08.batch.wait-returns", waited)
	})
}
