package varmq

// ---- C10: Purge cancels what it removes; a job accepted concurrently is removed-and-cancelled or stays pending.
func H_C10_purge() {
	var runs [2]int
	w, q := mWorker(func(j Job[int]) { runs[j.Data()]++ }, 1, 1)
	j0, _ := q.Add(0)
	var j1 EnqueuedJob
	var ok1 bool
	vPrologueEnd()
	go func() { q.Purge() }()
	go func() { j1, ok1 = q.Add(1) }()
	w0, w1 := false, false
	go func() { j0.Wait(); w0 = true }()
	vAtQuiescence(func() {
		vReach("C10.purge.quiescent")
		vAssert("C10.purge-cancels-removed", w0 && j0.Status() == "Closed" && runs[0] == 0)
		// job 1: accepted concurrently: either still pending, or closed (removed and cancelled)
		vAssert("C10.purge-accounting", !ok1 || w.NumPending() == 1 || j1.Status() == "Closed")
		_ = w1
	})
}

// ---- C10: after Close on a queue every later submission is rejected with no side effect; pending jobs still run.
func H_C10_closedqueue() {
	runs := 0
	w, q := mWorker(func(j Job[int]) { runs++ }, 1, 1)
	q.Add(0)
	err := q.Close()
	vAssert("C10.queue-close-ok", err == nil)
	sub, pend := w.Metrics().Submitted(), w.NumPending()
	j, ok := q.Add(1)
	vAssert("C10.closed-rejects-add", !ok && j == nil)
	g := q.AddAll([]Item[int]{{ID: "x", Data: 2}})
	vAssert("C10.closed-rejects-addall", g.NumPending() == 0)
	vAssert("C10.closed-no-side-effect", w.Metrics().Submitted() == sub && w.NumPending() == pend)
	vPrologueEnd()
	go func() {
		mDispatch(w)
		mDispatch(w)
	}()
	vAtQuiescence(func() {
		vReach("C10.closedqueue.quiescent")
		vAssert("C10.pending-still-run", runs == 1)
	})
}
