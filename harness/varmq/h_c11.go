package varmq

// ---- C11 / C12: a persistent queue on the recording adapter: acknowledge only after processing, at most
// once, with the id issued; every accepted job is processed or still held by the adapter at every cut.
func H_C11_persistent() {
	d := vNondetInt()
	fEnq, fDeq, fAck := vNondetBool(), vNondetBool(), vNondetBool()
	finished := false
	var seenData int
	var seenID string
	a := &hAdapter{failEnq: fEnq, failDeq: fDeq, failAck: fAck}
	wb := NewWorker(func(j Job[int]) {
		seenData, seenID = j.Data(), j.ID()
		vAssert("C11.no-ack-before-run", a.acked[0] == 0)
		finished = true
	}, 1).(*workerBinder[int])
	w := wb.worker
	q := newPersistentQueue(w, a)
	w.status.Store(running)
	w.pool.PushNode(w.initPoolNode())
	ok := q.Add(d, WithJobId("id-1"))
	vAssert("C12.reject-on-enqueue-fault", ok == !fEnq)
	vAssert("C12.no-effect-when-rejected", ok || (a.n == 0 && w.Metrics().Submitted() == 0))
	vPrologueEnd()
	go func() {
		mDispatch(w)
		mDispatch(w)
	}()
	vAtAnyCut(func() {
		vReach("C11.persistent.cut")
		vAssert("C11.ack-issued-once", !a.badAck && a.acked[0] <= 1)
		vAssert("C11.ack-after-run", a.acked[0] == 0 || finished)
		// crash safety: accepted => processed, or still pending in the adapter, or delivered but unacknowledged
		vAssert("C11.crash-safe", !ok || finished || !a.taken[0] || a.acked[0] == 0)
	})
	vAtQuiescence(func() {
		vReach("C11.persistent.quiescent")
		vAssert("C12.fidelity", !finished || (seenData == d && seenID == "id-1"))
		vAssert("C11.processed-unless-dequeue-fault", !ok || finished || fDeq)
		// whatever the adapter refused (an acknowledgement in particular), the concurrency slot is given back
		vAssert("C11.slot-returned-after-faults", w.NumProcessing() == 0)
	})
}

// ---- C12: bad entries are isolated: an undecodable entry, an entry with an unknown status and a foreign value
// yield an error each and do not block or reorder the valid entry behind them.
func H_C12_bad_entries() {
	kind := vNondetRange(0, 2) // what the first stored entry is
	d := vNondetInt()
	runs, seen := 0, 0
	a := &hAdapter{}
	wb := NewWorker(func(j Job[int]) { runs++; seen = j.Data() }, 1).(*workerBinder[int])
	w := wb.worker
	newPersistentQueue(w, a)
	w.status.Store(running)
	w.pool.PushNode(w.initPoolNode())
	switch kind {
	case 0:
		a.Enqueue([]byte("not json"))
	case 1:
		bad, _ := (&job[int]{id: "x"}).jsonWithStatus("Bogus")
		a.Enqueue(bad)
	case 2:
		a.Enqueue(42)
	}
	good, _ := newJob(d, jobConfigs{Id: "good"}).Json()
	a.Enqueue(good)
	errs := 0
	vPrologueEnd()
	go func() {
		for range w.Errs() {
			errs++
		}
	}()
	go func() {
		mDispatch(w)
		mDispatch(w)
	}()
	vAtQuiescence(func() {
		vReach("C12.bad.quiescent")
		vAssert("C12.bad-isolated", runs == 1 && seen == d)
		vAssert("C12.bad-reported", errs == 1)
		vAssert("C12.adapter-drained", a.Len() == 0)
	})
}

// jsonWithStatus: a stored entry whose status string is not one of the five known ones (harness helper).
func (j *job[T]) jsonWithStatus(st string) ([]byte, error) {
	return jsonMarshalView(jobView[T]{Id: j.id, Status: st, Payload: j.data})
}
