package varmq

import "encoding/json"

func jsonMarshalView[T any](v jobView[T]) ([]byte, error) { return json.Marshal(v) }
