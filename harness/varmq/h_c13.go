package varmq

// ---- C13: a worker bound to a distributed queue processes what any producer puts on the shared adapter,
// driven only by the adapter's "enqueued" notifications; items present before binding are drained at start.
func H_C13_distributed() {
	before := vNondetBool()
	d := vNondetInt()
	runs, seen := 0, 0
	a := &hAdapter{}
	producer := NewDistributedQueue[int](a)
	if before {
		producer.Add(d) // already there when the consumer binds (no subscriber yet)
	}
	w := NewWorker(func(j Job[int]) { runs++; seen = j.Data() }, 1)
	w.WithDistributedQueue(a)
	if !before {
		ok := producer.Add(d)
		vAssume(ok)
	}
	vAtQuiescence(func() {
		vReach("C13.distributed.quiescent")
		vAssert("C13.drained", a.Len() == 0 && runs == 1 && seen == d)
		vAssert("C13.acked-once", a.acked[0] == 1 && !a.badAck)
		exp := uint64(1)
		if before {
			exp = 0
		}
		vAssert("C13.submitted-counts-notifications", w.Metrics().Submitted() == exp)
	})
}
