package varmq

// ---- C13: a worker bound to a distributed queue processes what any producer puts on the shared adapter,
// driven only by the adapter's "enqueued" notifications; items present before binding are drained at start.
func H_C13_distributed() {
	before := vNondetBool()
	d := vNondetInt()
	runs, seen := 0, 0
	a := &hAdapter{}
	producer := NewDistributedQueue[int](a)
	if before {
		producer.Add(d) // already there when the consumer binds (no subscriber yet)
	}
	w := NewWorker(func(j Job[int]) { runs++; seen = j.Data() }, 1)
	w.WithDistributedQueue(a)
	if !before {
		ok := producer.Add(d)
		vAssume(ok)
	}
	vAtQuiescence(func() {
		vReach("C13.distributed.quiescent")
		vAssert("C13.drained", a.Len() == 0 && runs == 1 && seen == d)
		vAssert("C13.acked-once", a.acked[0] == 1 && !a.badAck)
		exp := uint64(1)
		if before {
			exp = 0
		}
		vAssert("C13.submitted-counts-notifications", w.Metrics().Submitted() == exp)
	})
}

// ---- C13: every "enqueued" notification counts as one submission in the consumer's metrics, whether or not
// its workers are busy at that moment (in-flight count symbolic, set as ghost state).
func H_C13_notify_counts() {
	inflight := vNondetRange(0, 2)
	wb := NewWorker(func(j Job[int]) {}, 2).(*workerBinder[int])
	w := wb.worker
	a := &hAdapter{}
	w.queues.Register(a)
	w.status.Store(running)
	w.curProcessing.Store(uint32(inflight))
	before := w.Metrics().Submitted()
	wb.handleQueueSubscription("enqueued")
	wb.handleQueueSubscription("enqueued")
	vAssert("C13.each-notification-counts", w.Metrics().Submitted() == before+2)
	wb.handleQueueSubscription("something-else")
	vAssert("C13.other-actions-ignored", w.Metrics().Submitted() == before+2)
	vPrologueEnd()
	vReach("C13.notify.end")
}
