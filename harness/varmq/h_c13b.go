package varmq

// ---- C13: two workers consume the same distributed adapter: one stored item is executed by exactly one of them
// and acknowledged once, whichever dispatch steps race for it (M-level: each consumer makes one dispatch step).
func H_C13_two_consumers() {
	d := vNondetInt()
	runs1, runs2, seen := 0, 0, 0
	a := &hAdapter{}
	mk := func(cnt *int) *worker[int, iJob[int]] {
		wb := NewWorker(func(j Job[int]) { *cnt++; seen = j.Data() }, 1).(*workerBinder[int])
		w := wb.worker
		w.queues.Register(a)
		w.status.Store(running)
		w.pool.PushNode(w.initPoolNode())
		return w
	}
	w1, w2 := mk(&runs1), mk(&runs2)
	ok := NewDistributedQueue[int](a).Add(d)
	vAssume(ok)
	vPrologueEnd()
	go func() { mDispatch(w1) }()
	go func() { mDispatch(w2) }()
	errs := 0
	go func() {
		for range w1.Errs() {
			errs++
		}
	}()
	go func() {
		for range w2.Errs() {
			errs++
		}
	}()
	vAtQuiescence(func() {
		vReach("C13.two-consumers.quiescent")
		vAssert("C13.two-consumers.exactly-one", runs1+runs2 == 1 && seen == d)
		vAssert("C13.two-consumers.acked-once", a.acked[0] == 1 && !a.badAck && a.Len() == 0)
	})
}

// ---- C13 on the PRIORITY flavour (public API, real loop): two items with symbolic priorities put on the shared
// adapter before the consumer binds are both drained without prompting, lowest priority number first,
// each acknowledged once.
func H_C13_distributed_priority() {
	p0, p1 := vNondetRange(0, 1), vNondetRange(0, 1)
	order := 0
	runs := 0
	a := &hAdapterP{}
	a.byPrio = true
	producer := NewDistributedPriorityQueue[int](a)
	ok0 := producer.Add(10, p0)
	ok1 := producer.Add(11, p1)
	vAssume(ok0 && ok1)
	w := NewWorker(func(j Job[int]) {
		if runs == 0 {
			order = j.Data()
		}
		runs++
	}, 1)
	w.WithDistributedPriorityQueue(a)
	vPrologueEnd()
	vAtQuiescence(func() {
		vReach("C13.dprio.quiescent")
		vAssert("C13.dprio.drained", a.Len() == 0 && runs == 2)
		vAssert("C13.dprio.acked-once-each", a.acked[0] == 1 && a.acked[1] == 1 && !a.badAck)
		first := 10
		if p1 < p0 {
			first = 11
		}
		vAssert("C13.dprio.priority-order", order == first)
	})
}
