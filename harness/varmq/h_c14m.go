package varmq

// ---- C14: the lifecycle state machine, one harness per state (reached by its shortest call sequence), then every call sequence of length 2 (sequential prefix: the
// goroutines the calls start have not run; no jobs). After an optional first Bind, every call's error result and
// the resulting Status/IsRunning/IsPaused/IsStopped follow the reference machine below.
const (
	hsInitiated = iota
	hsRunning
	hsPaused
	hsStopped
)

func H_C14_machine_I() { hMachine(hsInitiated, 1) }
func H_C14_machine_R() { hMachine(hsRunning, 1) }
func H_C14_machine_P() { hMachine(hsPaused, 1) }
func H_C14_machine_S() { hMachine(hsStopped, 1) }

// hMachine: the worker is brought into state `from` by the shortest call sequence, then `steps` symbolic calls follow.
func hMachine(from, steps int) {
	w := NewWorker(func(j Job[int]) {}, 1)
	st, conc := hsInitiated, 1
	vAssert("C14.machine.initial", w.Status() == "Initiated" && !w.IsRunning() && !w.IsPaused() && !w.IsStopped())
	if from != hsInitiated {
		w.BindQueue()
		st = hsRunning
	}
	if from == hsPaused {
		w.Pause()
		st = hsPaused
	}
	if from == hsStopped {
		w.Stop()
		st = hsStopped
	}
	for i := 0; i < steps; i++ {
		op := vNondetRange(0, 7)
		var err, want error
		switch op {
		case 0, 1: // Pause, PauseAndWait
			if op == 0 {
				err = w.Pause()
			} else {
				err = w.PauseAndWait()
			}
			switch st {
			case hsInitiated:
				want = ErrNotRunningWorker
			case hsRunning:
				st = hsPaused
			}
		case 2: // Resume
			err = w.Resume()
			switch st {
			case hsStopped:
				want = ErrNotRunningWorker
			case hsRunning:
				want = ErrRunningWorker
			default:
				st = hsRunning
			}
		case 3, 4: // Stop, WaitAndStop
			if op == 3 {
				err = w.Stop()
			} else {
				err = w.WaitAndStop()
			}
			if st == hsInitiated {
				want = ErrNotRunningWorker
			} else {
				st = hsStopped
			}
		case 5: // Restart
			err = w.Restart()
			st = hsRunning
		case 6: // TunePool
			n := vNondetRange(1, 3)
			err = w.TunePool(n)
			if st != hsRunning {
				want = ErrNotRunningWorker
			} else if n == conc {
				want = ErrSameConcurrency
			} else {
				conc = n
			}
		case 7: // binding another queue never changes the state (an Initiated worker starts)
			w.BindPriorityQueue()
			if st == hsInitiated {
				st = hsRunning
			}
		}
		vAssert("C14.machine.error-result", err == want)
		var name string
		switch st {
		case hsInitiated:
			name = "Initiated"
		case hsRunning:
			name = "Running"
		case hsPaused:
			name = "Paused"
		default:
			name = "Stopped"
		}
		vAssert("C14.machine.status", w.Status() == name)
		vAssert("C14.machine.predicates", w.IsRunning() == (st == hsRunning) && w.IsPaused() == (st == hsPaused) && w.IsStopped() == (st == hsStopped))
		vAssert("C14.machine.concurrency", w.NumConcurrency() == conc)
	}
	vReach("C14.machine.end")
}
