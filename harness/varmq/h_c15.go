package varmq

import "github.com/goptics/varmq/internal/queues"

// C15 — every Bind*/With* registers the queue exactly once with the worker's queue manager, whatever its
// kind; a queue registered twice would get a double share under RoundRobin and be counted twice in NumPending.
func H_C15_registered_once() {
	kind := vNondetRange(0, 4)
	wb := NewWorker(func(j Job[int]) {}, 1).(*workerBinder[int])
	w := wb.worker
	switch kind {
	case 0:
		newQueue(w, queues.NewQueue[iJob[int]]())
		vAssert("C15.registered-once.standard", w.queues.Count() == 1)
	case 1:
		newPriorityQueue(w, queues.NewPriorityQueue[iJob[int]]())
		vAssert("C15.registered-once.priority", w.queues.Count() == 1)
	case 2:
		newPersistentQueue(w, &hAdapter{})
		vAssert("C15.registered-once.persistent", w.queues.Count() == 1)
	case 3:
		newPersistentPriorityQueue(w, &hAdapterP{})
		vAssert("C15.registered-once.persistent-priority", w.queues.Count() == 1)
	case 4:
		a := &hAdapter{}
		w.queues.Register(a) // what WithDistributedQueue does (worker_binder.go), without starting the worker
		vAssert("C15.registered-once.distributed", w.queues.Count() == 1)
	}
	vReach("C15.registered.end")
}

// Pending count of the worker = sum over its queues, each counted once (C17), for a persistent-priority queue.
func H_C17_pending_persistent_priority() {
	wb := NewWorker(func(j Job[int]) {}, 1).(*workerBinder[int])
	w := wb.worker
	a := &hAdapterP{}
	q := newPersistentPriorityQueue(w, a)
	ok := q.Add(7, 1)
	vAssert("C17.ppq.accepted", ok)
	vAssert("C17.ppq.queue-pending", q.NumPending() == 1)
	vAssert("C17.ppq.worker-pending", w.NumPending() == 1)
	vAssert("C17.ppq.submitted", w.Metrics().Submitted() == 1)
	vReach("C17.ppq.end")
}
