package varmq

// C15 — the configured strategy reaches the dispatcher's selector: with two bound queues of symbolic
// populations, queueManager.next() returns what the documented strategy prescribes (RoundRobin: binding order,
// skipping empty queues; MaxLen: a fullest queue; MinLen: a non-empty queue with the fewest jobs).
func H_C15_strategy() {
	s := vNondetRange(0, 2)
	var st Strategy
	switch s {
	case 0:
		st = RoundRobin
	case 1:
		st = MaxLen
	default:
		st = MinLen
	}
	wb := NewWorker(func(j Job[int]) {}, WithStrategy(st)).(*workerBinder[int])
	w := wb.worker
	a, b := &hAdapter{}, &hAdapter{}
	la, lb := vNondetRange(0, 3), vNondetRange(0, 3)
	a.n, b.n = la, lb
	w.queues.Register(a)
	w.queues.Register(b)
	vAssert("C15.strategy.count", w.queues.Count() == 2)
	q1, e1 := w.queues.next()
	q2, e2 := w.queues.next()
	if la == 0 && lb == 0 {
		vAssert("C15.strategy.empty", e1 != nil && e2 != nil)
	} else {
		vAssert("C15.strategy.nonempty", e1 == nil && e2 == nil && q1 != nil && q2 != nil && q1.Len() > 0 && q2.Len() > 0)
		switch s {
		case 0:
			if la > 0 && lb > 0 {
				vAssert("C15.strategy.rr", q1 == IBaseQueue(a) && q2 == IBaseQueue(b))
			}
		case 1:
			if la > lb {
				vAssert("C15.strategy.maxlen", q1 == IBaseQueue(a) && q2 == IBaseQueue(a))
			}
			if lb > la {
				vAssert("C15.strategy.maxlen2", q1 == IBaseQueue(b) && q2 == IBaseQueue(b))
			}
		default:
			if la > 0 && (lb == 0 || la < lb) {
				vAssert("C15.strategy.minlen", q1 == IBaseQueue(a) && q2 == IBaseQueue(a))
			}
			if lb > 0 && (la == 0 || lb < la) {
				vAssert("C15.strategy.minlen2", q1 == IBaseQueue(b) && q2 == IBaseQueue(b))
			}
		}
	}
	vReach("C15.strategy.end")
}
