package varmq

import "time"

// ---- C18: numMinIdleWorkers = max(limit*ratio/100, 1) for all limits and ratios (pure arithmetic on the real function).
func H_C18_minidle() {
	c := vNondetInt()
	r := vNondetUint8()
	vAssume(1 <= c && c <= 1024 && 1 <= r && r <= 100)
	wb := NewWorker(func(j Job[int]) {}, 1).(*workerBinder[int])
	w := wb.worker
	w.Configs.minIdleWorkerRatio = r
	w.concurrency.Store(uint32(c))
	got := w.numMinIdleWorkers()
	want := c * int(r) / 100
	if want < 1 {
		want = 1
	}
	vAssert("C18.minidle-formula", got == want)
	vAssert("C18.minidle-range", 1 <= got && got <= c)
	vReach("C18.minidle.end")
}

// ---- C18: after Stop returned every goroutine the worker started has exited (no idle expiry configured).
func H_C18_stop_noleak() {
	w := NewWorker(func(j Job[int]) {}, 1)
	w.BindQueue()
	err := w.Stop()
	vAssert("C18.stop-ok", err == nil)
	stopped := true
	vAtQuiescence(func() {
		vReach("C18.noleak.quiescent")
		vAssert("C18.idle-zero-after-stop", stopped && w.NumIdleWorkers() == 0)
		vAssert("C18.no-leak", vLibGoroutinesAlive() == 0)
	})
}

// ---- C18 with idle expiry: the reaper goroutine must also end.
func H_C18_stop_noleak_expiry() {
	w := NewWorker(func(j Job[int]) {}, 1, WithIdleWorkerExpiryDuration(time.Millisecond))
	w.BindQueue()
	err := w.Stop()
	vAssert("C18.expiry.stop-ok", err == nil)
	vAtQuiescence(func() {
		vReach("C18.noleak-expiry.quiescent")
		vAssert("C18.no-leak-with-expiry", vLibGoroutinesAlive() == 0)
	})
}
