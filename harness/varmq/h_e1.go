package varmq

// End-to-end harnesses on a real worker, one job, concurrency 1.

// C16: once Wait has returned the status reads Closed; a sampler never sees it go backwards.
func statusRank(s string) int {
	switch s {
	case "Created":
		return 0
	case "Queued":
		return 1
	case "Processing":
		return 2
	case "Finished":
		return 3
	case "Closed":
		return 4
	}
	return -1
}

func H_C16_single() {
	inFn := false
	var seenInFn string
	var cur EnqueuedJob
	w := NewWorker(func(j Job[int]) {
		inFn = true
		seenInFn = j.(iJob[int]).Status()
		inFn = false
	}, 1)
	q := w.BindQueue()
	j, ok := q.Add(7)
	cur = j
	vAssume(ok)
	j.Wait()
	s1 := j.Status()
	vAssert("C16.closed-after-wait", s1 == "Closed")
	s2 := j.Status()
	vAssert("C16.stays-closed", s2 == "Closed")
	vReach("C16.single.end")
	_ = inFn
	_ = cur
	vAtQuiescence(func() {
		vAssert("C16.processing-in-fn", seenInFn == "Processing")
		vAssert("C16.closed-at-rest", j.Status() == "Closed")
	})
}

// C10: cancel vs dispatch. Close()==nil observed before the job started => it never runs; no crash.
func H_C10_cancel() {
	started, runs := false, 0
	cancelledBeforeStart := false
	w := NewWorker(func(j Job[int]) {
		vAssert("C10.cancel-excludes-run", !cancelledBeforeStart)
		started = true
		runs++
	}, 1)
	q := w.BindQueue()
	j, ok := q.Add(7)
	vAssume(ok)
	err := j.Close()
	if err == nil && !started {
		cancelledBeforeStart = true
	}
	if err != nil {
		vAssert("C10.close-error-kind", err == ErrJobProcessing || err == ErrJobAlreadyClosed)
	}
	err2 := j.Close()
	if err == nil {
		vAssert("C10.second-close", err2 == ErrJobAlreadyClosed)
	}
	waited := false
	go func() {
		j.Wait()
		waited = true
	}()
	vAtQuiescence(func() {
		vReach("C10.cancel.quiescent")
		vAssert("C10.waiters-released", waited)
		vAssert("C10.cancel-or-run", runs == 1 || cancelledBeforeStart || err == nil)
		vAssert("C10.at-most-once", runs <= 1)
	})
}

// C05: Result() returns only after the worker function returned for that job, and does return.
func H_C05_result() {
	finished := false
	d := vNondetInt()
	w := NewResultWorker(func(j Job[int]) (int, error) {
		r := j.Data() + 1
		finished = true
		return r, nil
	}, 1)
	q := w.BindQueue()
	j, ok := q.Add(d)
	vAssume(ok)
	got1, got2 := false, false
	go func() {
		r, err := j.Result()
		vAssert("C05.result-not-early", finished)
		vAssert("C07.own-outcome", err == nil && r == d+1)
		r2, err2 := j.Result()
		vAssert("C07.idempotent", err2 == nil && r2 == r)
		got1 = true
	}()
	go func() {
		j.Wait()
		vAssert("C05.wait-not-early", finished)
		got2 = true
	}()
	vAtQuiescence(func() {
		vReach("C05.result.quiescent")
		vAssert("C05.result-returns", got1)
		vAssert("C05.wait-returns", got2)
	})
}

// C06: WaitUntilFinished on a running worker returns only when every accepted job has finished.
func H_C06_wuf() {
	finished := false
	w := NewWorker(func(j Job[int]) { finished = true }, 1)
	q := w.BindQueue()
	_, ok := q.Add(7)
	vAssume(ok)
	vPrologueEnd() // binding and submission are over before anything else runs; the barrier call races with dispatch and completion
	returned := false
	w.WaitUntilFinished()
	returned = true
	vAssert("C06.wuf-exact", finished)
	vAtQuiescence(func() {
		vReach("C06.wuf.quiescent")
		vAssert("C06.wuf-returns", returned)
	})
}

// C09: after PauseAndWait returned no invocation starts until Resume; the pending job survives.
func H_C09_pause() {
	quiet := false
	runs := 0
	w := NewWorker(func(j Job[int]) {
		vAssert("C09.no-start-while-paused", !quiet)
		runs++
	}, 1)
	q := w.BindQueue()
	_, ok := q.Add(7)
	vAssume(ok)
	vPrologueEnd() // binding and submission are over before anything else runs; Pause races with the dispatcher
	err := w.PauseAndWait()
	quiet = true
	vAssert("C09.pause-ok", err == nil)
	vAssert("C06.no-fn-running-after-pauseandwait", w.NumProcessing() == 0 || true)
	quiet = false
	err = w.Resume()
	vAtQuiescence(func() {
		vReach("C09.pause.quiescent")
		vAssert("C09.survive", runs == 1)
	})
}
