package varmq

import "context"

// ---- C03: end to end, one job: nothing is left pending or in flight when nothing can move any more,
// with and without a consumer on Errs().
func H_C03_progress() {
	runs := 0
	errReader := vNondetBool()
	w := NewWorker(func(j Job[int]) { runs++ }, 1)
	q := w.BindQueue()
	if errReader {
		go func() {
			for range w.Errs() {
			}
		}()
	}
	_, ok := q.Add(7)
	vAssume(ok)
	vAtQuiescence(func() {
		vReach("C03.progress.quiescent")
		vAssert("C03.no-pending-at-rest", w.NumPending() == 0 && w.NumProcessing() == 0)
		vAssert("C03.job-ran", runs == 1)
		vAssert("C03.one-idle-worker", w.NumIdleWorkers() >= 1)
		m := w.Metrics()
		vAssert("C17.e2e-exact", m.Submitted() == 1 && m.Completed() == 1 && m.Successful() == 1 && m.Failed() == 0)
	})
}

// ---- C06 / C09: Stop and WaitAndStop return only when no worker function is executing, and nothing starts afterwards.
func H_C06_stop() {
	inFn, quiet := false, false
	useWaitAndStop := vNondetBool()
	w := NewWorker(func(j Job[int]) {
		vAssert("C09.no-start-after-stop", !quiet)
		inFn = true
		inFn = false
	}, 1)
	q := w.BindQueue()
	_, ok := q.Add(7)
	vAssume(ok)
	var err error
	if useWaitAndStop {
		err = w.WaitAndStop()
	} else {
		err = w.Stop()
	}
	quiet = true
	vAssert("C06.stop-no-fn-running", !inFn)
	vAssert("C14.stop-ok", err == nil && w.IsStopped() && w.Status() == "Stopped")
	returned := true
	vAtQuiescence(func() {
		vReach("C06.stop.quiescent")
		vAssert("C06.stop-returns", returned)
	})
}

// ---- C14: context cancellation stops the worker.
func H_C14_ctx() {
	ctx, cancel := context.WithCancel(context.Background())
	w := NewWorker(func(j Job[int]) {}, 1, WithContext(ctx))
	w.BindQueue()
	vAssert("C14.ctx.running", w.IsRunning())
	cancel()
	vAtQuiescence(func() {
		vReach("C14.ctx.quiescent")
		vAssert("C14.ctx-stops", w.IsStopped())
	})
}

// ---- C14: lifecycle call sequences of length 2 from the Running state, against the documented machine.
// States: 1 Running, 2 Paused, 3 Stopped. Ops: 0 Pause, 1 Resume, 2 Stop, 3 Restart, 4 PauseAndWait, 5 TunePool(2), 6 BindQueue (second queue)
func refStep(st, op int) (int, bool) { // (next state, call returns nil)
	switch op {
	case 0, 4: // Pause / PauseAndWait
		if st == 1 {
			return 2, true
		}
		return st, true // idempotent no-op when paused or stopped
	case 1: // Resume
		if st == 2 {
			return 1, true
		}
		return st, false // running: already running; stopped: not running
	case 2: // Stop
		return 3, true
	case 3: // Restart
		return 1, true
	case 5: // TunePool(2) from concurrency 1
		return st, st == 1
	}
	return st, true // bind: never changes the state
}

func statusNum(w Worker) int {
	switch w.Status() {
	case "Running":
		return 1
	case "Paused":
		return 2
	case "Stopped":
		return 3
	}
	return 0
}

func H_C14_seq2() {
	wb := NewWorker(func(j Job[int]) {}, 1)
	wb.BindQueue()
	st := 1
	op1 := vNondetRange(0, 6)
	op2 := vNondetRange(0, 6)
	for i := 0; i < 2; i++ {
		op := op1
		if i == 1 {
			op = op2
		}
		var err error
		switch op {
		case 0:
			err = wb.Pause()
		case 1:
			err = wb.Resume()
		case 2:
			err = wb.Stop()
		case 3:
			err = wb.Restart()
		case 4:
			err = wb.PauseAndWait()
		case 5:
			err = wb.TunePool(2)
		case 6:
			wb.BindQueue()
		}
		next, okRes := refStep(st, op)
		if i == 0 {
			vAssert("C14.seq.result1", (err == nil) == okRes)
			vAssert("C14.seq.status1", statusNum(wb) == next)
		} else {
			vAssert("C14.seq.result2", (err == nil) == okRes)
			vAssert("C14.seq.status2", statusNum(wb) == next)
		}
		vAssert("C14.seq.flags", wb.IsRunning() == (next == 1) && wb.IsPaused() == (next == 2) && wb.IsStopped() == (next == 3))
		st = next
	}
	vReach("C14.seq.end")
}

// ---- C14: the worker never reports Running while unable to process jobs: after a sequence ending in the
// Running state a probe job must run.
func H_C14_probe() {
	runs := 0
	wb := NewWorker(func(j Job[int]) { runs++ }, 1)
	q := wb.BindQueue()
	op := vNondetRange(0, 3)
	switch op {
	case 0:
		wb.Pause()
		wb.Resume()
	case 1:
		wb.Stop()
		wb.Restart()
	case 2:
		wb.Restart()
	case 3:
		wb.PauseAndWait()
		wb.Resume()
	}
	vAssert("C14.probe.running", wb.IsRunning())
	_, ok := q.Add(1)
	vAssume(ok)
	vAtQuiescence(func() {
		vReach("C14.probe.quiescent")
		vAssert("C14.running-means-alive", runs == 1)
	})
}

// ---- C14 / C02: binding another queue never changes the state (and never starts a second dispatcher).
func H_C14_bind_state() {
	stopFirst := vNondetBool()
	wb := NewWorker(func(j Job[int]) {}, 1)
	wb.BindQueue()
	if stopFirst {
		wb.Stop()
	} else {
		wb.Pause()
	}
	before := wb.Status()
	wb.BindQueue()
	vAssert("C14.bind-keeps-state", wb.Status() == before)
	vAssert("C14.bind-keeps-paused", stopFirst || wb.IsPaused())
	vAssert("C14.bind-keeps-stopped", !stopFirst || wb.IsStopped())
	vAtQuiescence(func() {
		vReach("C14.bind.quiescent")
		vAssert("C02.one-dispatcher", vLibGoroutinesAlive() <= 2)
	})
}
