package varmq

import "github.com/goptics/varmq/internal/queues"

// Mechanism-level scaffolding: a worker in the state start() leaves it in, minus the event-loop
// goroutine, with `nodes` idle pool goroutines already created (so pool goroutines are spawned in the
// single-threaded prologue). The dispatcher's step is driven by a harness goroutine through mDispatch,
// which is the body of the real loop (worker.go goEventLoop) for one iteration.

func mWorker(fn func(j Job[int]), conc, nodes int) (*worker[int, iJob[int]], *queue[int]) {
	wb := NewWorker(fn, conc).(*workerBinder[int])
	w := wb.worker
	q := newQueue(w, queues.NewQueue[iJob[int]]())
	w.status.Store(running)
	for i := 0; i < nodes; i++ {
		w.pool.PushNode(w.initPoolNode())
	}
	return w, q
}

func mResultWorker(fn func(j Job[int]) (int, error), conc, nodes int) (*worker[int, iResultJob[int, int]], *resultQueue[int, int]) {
	wb := NewResultWorker(fn, conc).(*resultWorkerBinder[int, int])
	w := wb.worker
	q := newResultQueue(w, queues.NewQueue[iResultJob[int, int]]())
	w.status.Store(running)
	for i := 0; i < nodes; i++ {
		w.pool.PushNode(w.initPoolNode())
	}
	return w, q
}

func mErrWorker(fn func(j Job[int]) error, conc, nodes int) (*worker[int, iErrorJob[int]], *errorQueue[int]) {
	wb := NewErrWorker(fn, conc).(*errWorkerBinder[int])
	w := wb.worker
	q := newErrorQueue(w, queues.NewQueue[iErrorJob[int]]())
	w.status.Store(running)
	for i := 0; i < nodes; i++ {
		w.pool.PushNode(w.initPoolNode())
	}
	return w, q
}

// one iteration of the dispatcher's inner loop (worker.go:421-425)
func mDispatch[J iJob[int]](w *worker[int, J]) bool {
	if w.IsRunning() && w.curProcessing.Load() < w.concurrency.Load() && w.queues.Len() > 0 {
		if err := w.processNextJob(); err != nil {
			w.sendError(err)
		}
		return true
	}
	return false
}

// mWorkerLoop: like mWorker but with the REAL event loop goroutine (goEventLoop) instead of harness-driven
// dispatch steps; used where the property is about the loop's own guard and wake-ups.
func mWorkerLoop(fn func(j Job[int]), conc, nodes int) (*worker[int, iJob[int]], *queue[int]) {
	wb := NewWorker(fn, conc).(*workerBinder[int])
	w := wb.worker
	q := newQueue(w, queues.NewQueue[iJob[int]]())
	w.status.Store(running)
	w.goEventLoop()
	for i := 0; i < nodes; i++ {
		w.pool.PushNode(w.initPoolNode())
	}
	return w, q
}
