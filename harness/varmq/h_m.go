package varmq

import (
	"sync/atomic"

	"github.com/goptics/varmq/internal/queues"
)

// ---- C01 / C17: two jobs, two pool goroutines, dispatcher step driven three times.
// Symbolic variations: job 0 cancelled before dispatch, queue closed before the second Add.
func H_C01_m2() {
	var runs [2]int
	cancel0 := vNondetBool()
	closeQ := vNondetBool()
	w, q := mWorker(func(j Job[int]) {
		d := j.Data()
		vAssert("C01.data-in-range", d == 0 || d == 1)
		runs[d]++
		vAssert("C01.at-most-once", runs[d] == 1)
		vAssert("C01.id", (d == 0 && j.ID() == "job-0") || (d == 1 && j.ID() == ""))
	}, 2, 2)
	j0, ok0 := q.Add(0, WithJobId("job-0"))
	vAssert("C01.accepted0", ok0)
	cancelled := false
	if cancel0 {
		cancelled = j0.Close() == nil
		vAssert("C10.cancel-queued-ok", cancelled)
	}
	if closeQ {
		q.Close()
	}
	_, ok1 := q.Add(1)
	vAssert("C10.closed-queue-rejects", ok1 == !closeQ)
	accepted := 1
	if ok1 {
		accepted = 2
	}
	vAssert("C17.submitted-eq-accepted", int(w.Metrics().Submitted()) == accepted)
	vAssert("C17.pending-eq-accepted", w.NumPending() == accepted && q.NumPending() == accepted)
	vPrologueEnd()
	go func() {
		mDispatch(w)
		mDispatch(w)
		mDispatch(w)
	}()
	vAtAnyCut(func() {
		np, pr := w.NumPending(), w.NumProcessing()
		vAssert("C17.bounds", 0 <= np && np <= accepted && 0 <= pr && pr <= 2)
		vAssert("C01.never-if-cancelled", !cancelled || runs[0] == 0)
		vAssert("C01.never-if-rejected", ok1 || runs[1] == 0)
	})
	vAtQuiescence(func() {
		vReach("C01.m2.quiescent")
		vAssert("C01.exactly-once", (cancelled || runs[0] == 1) && (!ok1 || runs[1] == 1))
		m := w.Metrics()
		done := runs[0] + runs[1]
		vAssert("C17.exact-at-rest", w.NumPending() == 0 && w.NumProcessing() == 0 && int(m.Completed()) == done &&
			int(m.Successful()) == done && m.Failed() == 0 && int(m.Submitted()) == accepted)
	})
}

// ---- C02: concurrency 1 but two idle pool goroutines (as after TunePool down): never two invocations at once.
func H_C02_m() {
	inflight := 0
	var tick atomic.Int32
	w, q := mWorker(func(j Job[int]) {
		inflight++
		vAssert("C02.peak", inflight <= 1)
		tick.Add(1) // a scheduling point inside the worker function
		inflight--
	}, 1, 2)
	q.Add(0)
	q.Add(1)
	vPrologueEnd()
	go func() {
		mDispatch(w)
		mDispatch(w)
		mDispatch(w)
	}()
	vAtAnyCut(func() {
		vAssert("C02.processing-le-limit", w.NumProcessing() <= 1)
		vReach("C02.m.cut")
	})
}

// ---- C02: TunePool(1) on a worker of concurrency 2 with two idle pool goroutines: after it returned and the
// pool is idle, at most one job runs at a time.
func H_C02_tune() {
	inflight := 0
	tuned := false
	var tick atomic.Int32
	w, q := mWorker(func(j Job[int]) {
		inflight++
		vAssert("C02.after-tune", !tuned || inflight <= 1)
		tick.Add(1)
		inflight--
	}, 2, 2)
	err := w.TunePool(1)
	tuned = err == nil
	vAssert("C02.tune-ok", err == nil && w.NumConcurrency() == 1)
	vAssert("C14.tune-same", w.TunePool(1) == ErrSameConcurrency)
	q.Add(0)
	q.Add(1)
	vPrologueEnd()
	go func() {
		mDispatch(w)
		mDispatch(w)
		mDispatch(w)
	}()
	vAtAnyCut(func() { vReach("C02.tune.cut") })
}

// ---- C04 through the worker: concurrency 1, three preloaded jobs; every invocation starts the job that the
// queue's order puts next (FIFO queue).
func H_C04_worker_fifo() {
	next := 0
	w, q := mWorker(func(j Job[int]) {
		vAssert("C04.worker.fifo-order", j.Data() == next)
		next++
	}, 1, 1)
	q.Add(0)
	q.Add(1)
	q.Add(2)
	vPrologueEnd()
	go func() {
		mDispatch(w)
		mDispatch(w)
		mDispatch(w)
		mDispatch(w)
	}()
	vAtAnyCut(func() { vReach("C04.worker.fifo.cut") })
}

// Priority queue through the worker: symbolic priorities, the started job is always the minimum pending one.
func H_C04_worker_pq() {
	p0, p1 := vNondetInt(), vNondetInt()
	started := 0
	var first int
	wb := NewWorker(func(j Job[int]) {
		if started == 0 {
			first = j.Data()
		}
		started++
	}, 1).(*workerBinder[int])
	w := wb.worker
	q := newPriorityQueue(w, queues.NewPriorityQueue[iJob[int]]())
	w.status.Store(running)
	w.pool.PushNode(w.initPoolNode())
	q.Add(0, p0)
	q.Add(1, p1)
	vPrologueEnd()
	go func() {
		mDispatch(w)
		mDispatch(w)
		mDispatch(w)
	}()
	vAtAnyCut(func() {
		vReach("C04.worker.pq.cut")
		vAssert("C04.worker.pq-order", started == 0 || (first == 0) == (p0 <= p1))
	})
}

// ---- C07: outcomes on a result worker: value, error or panic per job under symbolic selectors.
func H_C07_outcomes() {
	k0, k1 := vNondetRange(0, 2), vNondetRange(0, 2) // 0 = value, 1 = error, 2 = panic
	d0, d1 := vNondetInt(), vNondetInt()
	e0, e1 := &hErr{}, &hErr{}
	w, q := mResultWorker(func(j Job[int]) (int, error) {
		k, e := k0, e0
		if j.ID() == "b" {
			k, e = k1, e1
		}
		switch k {
		case 1:
			return 0, e
		case 2:
			panic("boom")
		}
		return 3*j.Data() + 1, nil
	}, 2, 2)
	ja, _ := q.Add(d0, WithJobId("a"))
	jb, _ := q.Add(d1, WithJobId("b"))
	vPrologueEnd()
	go func() {
		mDispatch(w)
		mDispatch(w)
	}()
	doneA, doneB := false, false
	go func() {
		r, err := ja.Result()
		vAssert("C07.a.value", k0 != 0 || (err == nil && r == 3*d0+1))
		vAssert("C07.a.error", k0 != 1 || err == error(e0))
		vAssert("C07.a.panic", k0 != 2 || (err != nil && err != error(e0) && err != error(e1)))
		r2, err2 := ja.Result()
		vAssert("C07.a.idempotent", r2 == r && err2 == err)
		doneA = true
	}()
	go func() {
		r, err := jb.Result()
		vAssert("C07.b.value", k1 != 0 || (err == nil && r == 3*d1+1))
		vAssert("C07.b.error", k1 != 1 || err == error(e1))
		vAssert("C07.b.panic", k1 != 2 || (err != nil && err != error(e0) && err != error(e1)))
		doneB = true
	}()
	vAtQuiescence(func() {
		vReach("C07.outcomes.quiescent")
		vAssert("C07.all-report", doneA && doneB)
		m := w.Metrics()
		fails := 0
		if k0 != 0 {
			fails++
		}
		if k1 != 0 {
			fails++
		}
		vAssert("C07.metrics", int(m.Failed()) == fails && int(m.Successful()) == 2-fails && m.Completed() == 2)
	})
}

type hErr struct{ x int }

func (e *hErr) Error() string { return "hErr" }

// ---- C02: the real dispatcher loop's guard, from a constructed state: `inflight` invocations are in progress
// (ghost: long-running jobs accounted in curProcessing), the limit is then tuned to n <= inflight, and a job is
// submitted. Whatever wakes the loop, it must not dispatch while inflight >= limit; it must dispatch when
// inflight < limit.
func H_C02_guard() {
	conc := vNondetRange(2, 3)
	inflight := vNondetRange(0, 3)
	n := vNondetRange(1, 3)
	vAssume(inflight <= conc && n <= conc)
	runs := 0
	w, q := mWorkerLoop(func(j Job[int]) { runs++ }, 1, 1)
	w.concurrency.Store(uint32(conc))
	w.curProcessing.Store(uint32(inflight))
	if n != conc {
		err := w.TunePool(n)
		vAssert("C02.guard.tune-ok", err == nil)
	}
	q.Add(0)
	vPrologueEnd()
	vAtAnyCut(func() {
		vReach("C02.guard.cut")
		vAssert("C02.guard.no-dispatch-at-limit", inflight < n || runs == 0)
	})
	vAtQuiescence(func() {
		vReach("C02.guard.quiescent")
		vAssert("C02.guard.dispatch-below-limit", inflight >= n || runs == 1)
	})
}
