package varmq

import (
	"sync/atomic"

	"github.com/goptics/varmq/internal/queues"
)

// ---- C03: saturated worker (concurrency 1, one pool goroutine), two jobs, REAL event loop and real completion
// path: the second job is dispatched by the wake-up the first job's completion sends. No quiescent state with a
// job pending.
func H_C03_saturated() {
	runs := 0
	w, q := mWorkerLoop(func(j Job[int]) {
		runs++
		if runs == 2 {
			vReach("C03.saturated.second-job-started")
		}
	}, 1, 1)
	q.Add(0)
	q.Add(1)
	vPrologueEnd()
	vAtQuiescence(func() {
		vReach("C03.saturated.quiescent")
		vAssert("C03.saturated-all-run", runs == 2)
		vAssert("C03.saturated-none-pending", w.NumPending() == 0 && w.NumProcessing() == 0)
	})
}

// ---- C06: two concurrent barrier callers both return once the job has finished (M level, real loop).
func H_C06_two_waiters() {
	finished := false
	w, q := mWorker(func(j Job[int]) { finished = true }, 1, 1)
	q.Add(0)
	vPrologueEnd()
	go func() { mDispatch(w) }()
	r1, r2 := false, false
	go func() { w.WaitUntilFinished(); r1 = true }()
	go func() { w.WaitUntilFinished(); r2 = true }()
	vAtQuiescence(func() {
		vReach("C06.two-waiters.quiescent")
		vAssert("C06.two-waiters-return", r1 && r2)
		vAssert("C06.two-waiters-job-ran", finished)
	})
}

// ---- C08 / C10: AddAll on a closed queue: every item is rejected and closed, the batch completes at once
// (Wait returns, NumPending 0, stream closed), for result and error workers on both in-memory queue kinds.
var hRejItems = []Item[int]{{ID: "a", Data: 1}, {ID: "b", Data: 2}, {ID: "c", Data: 3}}

func H_C08_rejected_result_fifo() {
	w, q := mResultWorker(func(j Job[int]) (int, error) { return 0, nil }, 1, 1)
	q.Close()
	g := q.AddAll(hRejItems)
	vAssert("C08.rejected.result-fifo.numpending", g.NumPending() == 0)
	vAssert("C17.rejected.result-fifo.not-submitted", w.Metrics().Submitted() == 0 && w.NumPending() == 0)
	vPrologueEnd()
	// read the stream from a goroutine: a stream that is never closed must show up as a failed assertion at rest,
	// not as a harness that blocks before its own assertions
	closedSeen, gotValue := false, false
	go func() {
		_, ok := <-g.Results()
		gotValue = ok
		closedSeen = !ok
	}()
	vAtQuiescence(func() {
		vReach("C08.rejected.result-fifo.end")
		vAssert("C08.rejected.result-fifo.stream-closed", closedSeen && !gotValue)
	})
}

func H_C08_rejected_result_pq() {
	wb := NewResultWorker(func(j Job[int]) (int, error) { return 0, nil }, 1).(*resultWorkerBinder[int, int])
	q := newResultPriorityQueue(wb.worker, queues.NewPriorityQueue[iResultJob[int, int]]())
	q.Close()
	g := q.AddAll(hRejItems)
	vAssert("C08.rejected.result-pq.numpending", g.NumPending() == 0)
	vAssert("C17.rejected.result-pq.not-submitted", wb.worker.Metrics().Submitted() == 0 && wb.worker.NumPending() == 0)
	vPrologueEnd()
	// read the stream from a goroutine: a stream that is never closed must show up as a failed assertion at rest,
	// not as a harness that blocks before its own assertions
	closedSeen, gotValue := false, false
	go func() {
		_, ok := <-g.Results()
		gotValue = ok
		closedSeen = !ok
	}()
	vAtQuiescence(func() {
		vReach("C08.rejected.result-pq.end")
		vAssert("C08.rejected.result-pq.stream-closed", closedSeen && !gotValue)
	})
}

func H_C08_rejected_err_fifo() {
	w, q := mErrWorker(func(j Job[int]) error { return nil }, 1, 1)
	q.Close()
	g := q.AddAll(hRejItems)
	vAssert("C08.rejected.err-fifo.numpending", g.NumPending() == 0)
	vAssert("C17.rejected.err-fifo.not-submitted", w.Metrics().Submitted() == 0 && w.NumPending() == 0)
	vPrologueEnd()
	// read the stream from a goroutine: a stream that is never closed must show up as a failed assertion at rest,
	// not as a harness that blocks before its own assertions
	closedSeen, gotValue := false, false
	go func() {
		_, ok := <-g.Errs()
		gotValue = ok
		closedSeen = !ok
	}()
	vAtQuiescence(func() {
		vReach("C08.rejected.err-fifo.end")
		vAssert("C08.rejected.err-fifo.stream-closed", closedSeen && !gotValue)
	})
}

func H_C08_rejected_err_pq() {
	wb := NewErrWorker(func(j Job[int]) error { return nil }, 1).(*errWorkerBinder[int])
	q := newErrorPriorityQueue(wb.worker, queues.NewPriorityQueue[iErrorJob[int]]())
	q.Close()
	g := q.AddAll(hRejItems)
	vAssert("C08.rejected.err-pq.numpending", g.NumPending() == 0)
	vAssert("C17.rejected.err-pq.not-submitted", wb.worker.Metrics().Submitted() == 0 && wb.worker.NumPending() == 0)
	vPrologueEnd()
	// read the stream from a goroutine: a stream that is never closed must show up as a failed assertion at rest,
	// not as a harness that blocks before its own assertions
	closedSeen, gotValue := false, false
	go func() {
		_, ok := <-g.Errs()
		gotValue = ok
		closedSeen = !ok
	}()
	vAtQuiescence(func() {
		vReach("C08.rejected.err-pq.end")
		vAssert("C08.rejected.err-pq.stream-closed", closedSeen && !gotValue)
	})
}

// ---- C09: two pending jobs, concurrency 1, REAL loop: the first job may finish while the dispatcher is still in
// its burst; PauseAndWait by the client: nothing starts after it returned, except through the known
// check-dequeue-dispatch window (the running-check must be repeated for every dispatch of a burst).
func H_C09_burst() {
	quiet := false
	var tick atomic.Int32
	w, q := mWorkerLoop(func(j Job[int]) {
		vAssert("C09.burst.no-start-while-paused", !quiet)
		tick.Add(1)
	}, 1, 1)
	q.Add(0)
	q.Add(1)
	vPrologueEnd()
	err := w.PauseAndWait()
	quiet = true
	vAssert("C09.burst.pause-ok", err == nil)
	vReach("C09.burst.end")
}

// ---- C10: Close on an executing job of a RESULT worker returns ErrJobProcessing and does not disturb it:
// the job's own result is still delivered and nothing panics.
func H_C10_close_executing() {
	started, finished := false, false
	var tick atomic.Int32
	_, q := mResultWorker(func(j Job[int]) (int, error) {
		started = true
		tick.Add(1)
		finished = true
		return 41, nil
	}, 1, 1)
	j, _ := q.Add(1)
	vPrologueEnd()
	w := q.w.(*worker[int, iResultJob[int, int]])
	go func() { mDispatch(w) }()
	gotRes := false
	go func() {
		s, f := started, finished
		err := j.Close()
		if s && !f && err != nil {
			vAssert("C10.close-executing-kind", err == ErrJobProcessing || err == ErrJobAlreadyClosed)
		}
		_ = f
	}()
	go func() {
		r, err := j.Result()
		vAssert("C10.close-executing-undisturbed", !finished || (err == nil && r == 41))
		gotRes = true
	}()
	vAtQuiescence(func() {
		vReach("C10.close-executing.quiescent")
		vAssert("C10.close-executing-result-returns", gotRes)
	})
}

// ---- C14: once Stop() has returned nil the worker is Stopped, whatever Resume() does concurrently
// (a job is in flight - ghost - so that Stop has to wait; a harness goroutine completes it).
func H_C14_stop_vs_resume() {
	w, _ := mWorker(func(j Job[int]) {}, 1, 1)
	w.curProcessing.Store(1) // one long-running invocation in flight
	vPrologueEnd()
	stopped := false
	var serr error
	go func() { serr = w.Stop(); stopped = true }()
	go func() { w.Resume() }()
	go func() { w.releaseWaiters(w.curProcessing.Add(^uint32(0))) }() // the invocation finishes
	vAtAnyCut(func() {
		// a safety property of every reachable state: Stop has returned nil => the worker is Stopped
		if stopped {
			vReach("C14.stop-vs-resume.stop-returned")
		}
		vAssert("C14.stopped-after-stop", !stopped || serr != nil || w.IsStopped())
	})
}

// ---- C16: the status reads Processing for as long as the worker function runs, for the other submission
// paths of the plain worker (Add on the priority queue, AddAll on both queues); Closed at rest.
func hC16Worker(ok1, ok2 *bool) IWorkerBinder[int] {
	var tick atomic.Int32
	return NewWorker(func(j Job[int]) {
		ij := j.(iJob[int])
		*ok1 = ij.Status() == "Processing"
		tick.Add(1)
		*ok2 = ij.Status() == "Processing"
	}, 1)
}

// priority queue paths at mechanism level: the submitter runs concurrently with a dispatch step and the pool goroutine
func hC16PQ(ok1, ok2 *bool) (*worker[int, iJob[int]], *priorityQueue[int]) {
	var tick atomic.Int32
	wb := NewWorker(func(j Job[int]) {
		ij := j.(iJob[int])
		*ok1 = ij.Status() == "Processing"
		tick.Add(1)
		*ok2 = ij.Status() == "Processing"
	}, 1).(*workerBinder[int])
	w := wb.worker
	q := newPriorityQueue(w, queues.NewPriorityQueue[iJob[int]]())
	w.status.Store(running)
	w.pool.PushNode(w.initPoolNode())
	return w, q
}

func H_C16_pq_add() {
	ok1, ok2 := true, true
	w, pq := hC16PQ(&ok1, &ok2)
	vPrologueEnd()
	var j EnqueuedJob
	go func() { j, _ = pq.Add(1, 0) }()
	go func() { mDispatch(w); mDispatch(w) }()
	vAtQuiescence(func() {
		vReach("C16.pq-add.quiescent")
		vAssert("C16.pq-add.processing-while-running", ok1 && ok2)
		vAssert("C16.pq-add.closed-or-pending-at-rest", j == nil || j.Status() == "Closed" || j.Status() == "Queued" && w.NumPending() == 1)
	})
}

func H_C16_pq_addall() {
	ok1, ok2 := true, true
	w, pq := hC16PQ(&ok1, &ok2)
	vPrologueEnd()
	go func() { pq.AddAll([]Item[int]{{ID: "a", Data: 1, Priority: 0}}) }()
	go func() { mDispatch(w); mDispatch(w) }()
	vAtQuiescence(func() {
		vReach("C16.pq-addall.quiescent")
		vAssert("C16.pq-addall.processing-while-running", ok1 && ok2)
	})
}

func H_C16_fifo_addall() {
	ok1, ok2 := true, true
	wb := hC16Worker(&ok1, &ok2)
	q := wb.BindQueue()
	q.AddAll([]Item[int]{{ID: "a", Data: 1}})
	vAtQuiescence(func() {
		vReach("C16.fifo-addall.quiescent")
		vAssert("C16.fifo-addall.processing-while-running", ok1 && ok2)
	})
}

// ---- C18: with concurrency 1 and one pool goroutine, two jobs: no quiescent state with more live pool
// goroutines than the concurrency (a second one may only be spawned when the first has been retired).
func H_C18_pool_size() {
	n := 0
	w, q := mWorkerLoop(func(j Job[int]) {
		n++
		if n == 2 {
			vReach("C18.pool-size.second-job-started")
		}
	}, 1, 1)
	q.Add(0)
	q.Add(1)
	vPrologueEnd()
	vAtQuiescence(func() {
		vReach("C18.pool-size.quiescent")
		// library goroutines: the event loop + pool goroutines
		vAssert("C18.max-goroutines", vLibGoroutinesAlive() <= 2 && w.NumIdleWorkers() <= 1)
	})
}

// mSignalDispatcher: a transcription of the event loop that dispatches only when woken through the worker's real
// signal channel (one attempt per wake-up; with concurrency 1 the real inner loop cannot do more). The completion
// path, the notifications and the pool are the real code. The real loop itself is covered by H_C02_guard,
// H_C03_saturated (thorough) and the end-to-end harnesses.
func mSignalDispatcher[J iJob[int]](w *worker[int, J]) {
	sig := w.eventLoopSignal
	<-sig
	mDispatch(w)
	<-sig
	mDispatch(w)
	<-sig
	mDispatch(w)
	<-sig
}

// ---- C03: saturated worker, two jobs, wake-ups through the real signal channel: no dead end with a job pending.
func H_C03_saturated_m() {
	runs := 0
	w, q := mWorker(func(j Job[int]) {
		runs++
		if runs == 2 {
			vReach("C03.saturated-m.second-job-started")
		}
	}, 1, 1)
	q.Add(0)
	q.Add(1)
	vPrologueEnd()
	go func() { mSignalDispatcher(w) }()
	vAtQuiescence(func() {
		vReach("C03.saturated-m.quiescent")
		vAssert("C03.saturated-m.all-run", runs == 2)
		vAssert("C03.saturated-m.none-pending", w.NumPending() == 0 && w.NumProcessing() == 0)
	})
}

// ---- C18: same, with the second job submitted concurrently (its wake-up may arrive while the first job's pool
// goroutine is between its in-flight decrement and its return to the pool): never more live pool goroutines than
// the concurrency at rest.
func H_C18_pool_size_m() {
	n := 0
	w, q := mWorker(func(j Job[int]) {
		n++
		if n == 2 {
			vReach("C18.pool-size-m.second-job-started")
		}
	}, 1, 1)
	q.Add(0)
	vPrologueEnd()
	go func() { mSignalDispatcher(w) }()
	go func() { q.Add(1) }()
	vAtAnyCut(func() {
		// with a constant concurrency of 1 a second pool goroutine is never needed: the finishing goroutine is
		// back in the idle list before its slot is given up
		vAssert("C18.pool-size-m.never-more-goroutines", vLibGoroutinesAlive() <= 1)
	})
	vAtQuiescence(func() {
		vReach("C18.pool-size-m.quiescent")
		vAssert("C18.pool-size-m.max-goroutines", vLibGoroutinesAlive() <= 1 && w.NumIdleWorkers() <= 1)
		vAssert("C18.pool-size-m.one-idle", w.NumIdleWorkers() >= 1 || w.NumPending() > 0)
	})
}
