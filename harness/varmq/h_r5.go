package varmq

import "context"

// ---- C14: cancelling the configured context stops the worker also when it is Paused at that moment (and a
// later Resume does not bring it back).
func H_C14_ctx_paused() {
	ctx, cancel := context.WithCancel(context.Background())
	w := NewWorker(func(j Job[int]) {}, 1, WithContext(ctx))
	w.BindQueue()
	perr := w.Pause()
	vAssert("C14.ctx-paused.paused", perr == nil && w.IsPaused())
	cancel()
	vAtQuiescence(func() {
		vReach("C14.ctx-paused.quiescent")
		vAssert("C14.ctx-paused.stops", w.IsStopped())
	})
}

// ---- C10: a closed queue stays closed: Purge after Close does not re-open it (both in-memory kinds).
func H_C10_close_purge_add() {
	w, q := mWorker(func(j Job[int]) {}, 1, 1)
	q.Add(0)
	err := q.Close()
	q.Purge()
	sub := w.Metrics().Submitted()
	j, ok := q.Add(1)
	vAssert("C10.close-purge.fifo-rejects-add", err == nil && !ok && j == nil)
	g := q.AddAll([]Item[int]{{ID: "x", Data: 2}, {ID: "y", Data: 3}})
	vAssert("C10.close-purge.fifo-rejects-addall", g.NumPending() == 0)
	vAssert("C10.close-purge.fifo-no-side-effect", w.Metrics().Submitted() == sub && w.NumPending() == 0)
	vPrologueEnd()
	vReach("C10.close-purge.end")
}

// ---- C03: a job cancelled while queued sits ahead of a live one (concurrency 1, worker idle, REAL event loop,
// one wake-up): the dispatcher skips the cancelled job and starts the live one in the same pass - nothing is left
// pending on an idle running worker.
func H_C03_cancelled_ahead() {
	runs := 0
	w, q := mWorkerLoop(func(j Job[int]) { runs++ }, 1, 1)
	dead, _ := q.Add(0)
	live, _ := q.Add(1)
	cerr := dead.Close()
	vAssert("C03.cancelled-ahead.cancel-ok", cerr == nil)
	vPrologueEnd()
	_ = live
	vAtQuiescence(func() {
		vReach("C03.cancelled-ahead.quiescent")
		vAssert("C03.cancelled-ahead.live-runs", runs == 1 && w.NumPending() == 0 && w.NumProcessing() == 0)
	})
}

// ---- C06: PauseAndWait on a worker that is ALREADY paused (plain Pause before) while a job is still executing:
// it returns only when no worker function is executing.
func H_C06_pause_then_wait() {
	finished := false
	w, q := mWorker(func(j Job[int]) { finished = true }, 1, 1)
	q.Add(0)
	mDispatch(w) // the job is on its way to a pool goroutine: in flight
	perr := w.Pause()
	vAssert("C06.pause-then-wait.paused", perr == nil && w.IsPaused() && w.NumProcessing() == 1)
	vPrologueEnd()
	err := w.PauseAndWait()
	vAssert("C06.pause-then-wait.exact", err == nil && finished && w.NumProcessing() == 0)
	vReach("C06.pause-then-wait.returned")
}
