package varmq

import "time"

// ---- C18: the idle-worker reaper follows the CURRENT concurrency: after TunePool(10) with a minimum idle ratio
// of 50 % up to five idle pool goroutines are kept; three expired idle ones are all kept by the next tick.
func H_C18_reaper_follows_tune() {
	wb := NewWorker(func(j Job[int]) {}, 2, WithIdleWorkerExpiryDuration(time.Nanosecond), WithMinIdleWorkerRatio(50)).(*workerBinder[int])
	w := wb.worker
	w.status.Store(running)
	for i := 0; i < 3; i++ {
		w.pool.PushNode(w.initPoolNode())
	}
	w.goRemoveIdleWorkers()
	err := w.TunePool(10)
	vAssert("C18.reaper-tune.tuned", err == nil && w.numMinIdleWorkers() == 5)
	vPrologueEnd()
	vAtQuiescence(func() {
		vReach("C18.reaper-tune.quiescent")
		// the model's clock is arbitrary, so "expired" could differ between the two candidate nodes; real time treats
		// them alike (both were never used): keep the executions in which the reaper did so (replayable natively)
		vAssume(w.NumIdleWorkers() != 2)
		vAssert("C18.reaper-tune.keeps-min-idle", w.NumIdleWorkers() == 3)
	})
}

