package varmq

import "sync/atomic"

// ---- C02: TunePool(1) returns while nothing is in flight and the REAL dispatcher is in the middle of a burst
// (two pending jobs, limit 2 when it woke up): every job dispatched afterwards respects the new limit.
func H_C02_tune_during_burst() {
	inflight := 0
	idleAtTune := false
	var tick atomic.Int32
	w, q := mWorkerLoop(func(j Job[int]) {
		inflight++
		vAssert("C02.tune-burst.limit", !idleAtTune || inflight <= 1)
		tick.Add(1)
		inflight--
	}, 2, 1)
	q.Add(0)
	q.Add(1)
	vPrologueEnd()
	err := w.TunePool(1)
	idleAtTune = err == nil && w.NumProcessing() == 0
	vReach("C02.tune-burst.tuned")
}
