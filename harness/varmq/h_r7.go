package varmq

// ---- C13: an item announced while the consumer's only slot is busy is processed after the running one completes,
// driven by the completion's own wake-up (distributed adapter, signal-driven dispatcher on the real signal channel;
// the acknowledgement of the finished item lies between the pieces of the completion path).
func H_C13_announced_while_busy() {
	runs := 0
	a := &hAdapter{}
	wb := NewWorker(func(j Job[int]) {
		runs++
		if runs == 2 {
			vReach("C13.busy.second-item-started")
		}
	}, 1).(*workerBinder[int])
	w := wb.worker
	w.queues.Register(a)
	a.Subscribe(wb.handleQueueSubscription)
	w.status.Store(running)
	w.pool.PushNode(w.initPoolNode())
	producer := NewDistributedQueue[int](a)
	ok1 := producer.Add(1)
	ok2 := producer.Add(2)
	vAssume(ok1 && ok2)
	vPrologueEnd()
	go func() { mSignalDispatcher(w) }()
	vAtQuiescence(func() {
		vReach("C13.busy.quiescent")
		vAssert("C13.busy.both-processed", runs == 2 && a.Len() == 0 && w.NumProcessing() == 0)
		vAssert("C13.busy.acked-once-each", a.acked[0] == 1 && a.acked[1] == 1 && !a.badAck)
	})
}

