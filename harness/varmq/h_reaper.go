package varmq

import (
	"time"

	"github.com/goptics/varmq/internal/queues"
)

// ---- C01 / C03 / C18 with idle expiry: the idle-worker reaper racing with a dispatch. Two idle pool goroutines
// (concurrency 2, minimum idle 1), one pending job, the REAL reaper goroutine (one tick), a dispatch step.
// A node the dispatcher has just taken from the idle list must not be stopped by the reaper: the accepted job runs.
func H_C01_reaper() {
	runs := 0
	wb := NewWorker(func(j Job[int]) { runs++ }, 2, WithIdleWorkerExpiryDuration(time.Nanosecond)).(*workerBinder[int])
	w := wb.worker
	q := newQueue(w, queues.NewQueue[iJob[int]]())
	w.status.Store(running)
	w.pool.PushNode(w.initPoolNode())
	w.pool.PushNode(w.initPoolNode())
	w.goRemoveIdleWorkers()
	q.Add(0)
	vPrologueEnd()
	go func() { mDispatch(w) }()
	vAtQuiescence(func() {
		vReach("C01.reaper.quiescent")
		vAssert("C01.reaper.job-runs", runs == 1)
		vAssert("C03.reaper.none-pending", w.NumPending() == 0 && w.NumProcessing() == 0)
		// every node in the idle list is served by a live goroutine (the reaper itself is one more live goroutine)
		vAssert("C18.reaper.idle-nodes-alive", w.pool.Len()+1 <= vLibGoroutinesAlive())
	})
}
