package varmq

// ---- C11 / C12 through the REAL event loop: a worker bound (public API, WithPersistentQueue) to an adapter
// that already holds entries drains it without further prompting - whatever the first dispatch attempt meets.

// H_C11_recover_loop: one accepted job is held by the recovered adapter; the first DequeueWithAckId may be
// refused (one-shot fault). Nothing is added afterwards. The job is processed and acknowledged once.
func H_C11_recover_loop() {
	fDeq := vNondetBool()
	runs := 0
	a := &hAdapter{}
	j0, _ := newJob(7, jobConfigs{Id: "r0"}).Json()
	a.Enqueue(j0)
	a.failDeq = fDeq
	w := NewWorker(func(j Job[int]) { runs++ }, 1)
	w.WithPersistentQueue(a)
	errs := 0
	go func() {
		for range w.Errs() {
			errs++
		}
	}()
	vAtQuiescence(func() {
		vReach("C11.recover.quiescent")
		vAssert("C11.recover.all-processed", runs == 1 && a.Len() == 0)
		vAssert("C11.recover.acked-once-each", a.acked[0] == 1 && !a.badAck)
		vAssert("C11.recover.fault-reported", (errs == 1) == fDeq)
	})
}

// H_C11_recover_loop2: two held jobs, the one-shot refusal may hit the first or the second dispatch (R=3).
func H_C11_recover_loop2() {
	fDeq := vNondetBool()
	runs := 0
	a := &hAdapter{}
	j0, _ := newJob(7, jobConfigs{Id: "r0"}).Json()
	j1, _ := newJob(8, jobConfigs{Id: "r1"}).Json()
	a.Enqueue(j0)
	a.Enqueue(j1)
	w := NewWorker(func(j Job[int]) {
		runs++
		if runs == 1 && fDeq {
			a.mx.Lock()
			a.failDeq = true // the refusal meets the dispatch of the second job
			a.mx.Unlock()
		}
	}, 1)
	w.WithPersistentQueue(a)
	go func() {
		for range w.Errs() {
		}
	}()
	vAtQuiescence(func() {
		vReach("C11.recover2.quiescent")
		vAssert("C11.recover2.all-processed", runs == 2 && a.Len() == 0)
		vAssert("C11.recover2.acked-once-each", a.acked[0] == 1 && a.acked[1] == 1 && !a.badAck)
	})
}

// H_C12_bad_entries_loop: the first stored entry is undecodable / has an unknown status / is a foreign value;
// a valid entry follows. The bad one is reported once, the valid one runs with its payload, nothing stays behind.
func H_C12_bad_entries_loop() {
	kind := vNondetRange(0, 2)
	d := vNondetInt()
	runs, seen := 0, 0
	a := &hAdapter{}
	switch kind {
	case 0:
		a.Enqueue([]byte("not json"))
	case 1:
		bad, _ := (&job[int]{id: "x"}).jsonWithStatus("Bogus")
		a.Enqueue(bad)
	case 2:
		a.Enqueue(42)
	}
	good, _ := newJob(d, jobConfigs{Id: "good"}).Json()
	a.Enqueue(good)
	w := NewWorker(func(j Job[int]) { runs++; seen = j.Data() }, 1)
	w.WithPersistentQueue(a)
	errs := 0
	go func() {
		for range w.Errs() {
			errs++
		}
	}()
	vAtQuiescence(func() {
		vReach("C12.bad-loop.quiescent")
		vAssert("C12.bad-loop.isolated", runs == 1 && seen == d)
		vAssert("C12.bad-loop.reported", errs == 1)
		vAssert("C12.bad-loop.drained", a.Len() == 0)
	})
}

// H_C11_recover_loop_priority: the same on the persistent PRIORITY flavour (WithPersistentPriorityQueue).
func H_C11_recover_loop_priority() {
	fDeq := vNondetBool()
	runs := 0
	a := &hAdapterP{}
	a.byPrio = true
	j0, _ := newJob(7, jobConfigs{Id: "r0"}).Json()
	a.Enqueue(j0, 3)
	a.failDeq = fDeq
	w := NewWorker(func(j Job[int]) { runs++ }, 1)
	w.WithPersistentPriorityQueue(a)
	errs := 0
	go func() {
		for range w.Errs() {
			errs++
		}
	}()
	vAtQuiescence(func() {
		vReach("C11.recover-prio.quiescent")
		vAssert("C11.recover-prio.all-processed", runs == 1 && a.Len() == 0)
		vAssert("C11.recover-prio.acked-once", a.acked[0] == 1 && !a.badAck)
		vAssert("C11.recover-prio.fault-reported", (errs == 1) == fDeq)
	})
}
