package varmq

// ---- C02 / C18 across Restart (public API, real goroutines): Restart() of a running worker retires the goroutines
// of the previous incarnation - in particular the old event loop: two dispatchers would both pass the non-atomic
// `curProcessing < concurrency` test and exceed the limit. At rest the worker has exactly as many goroutines as
// before the restart, and it is Running.
func H_C02_restart_single_loop() {
	w := NewWorker(func(j Job[int]) {}, 1)
	w.BindQueue()
	before := vLibGoroutinesAlive() // event loop + idle pool goroutines of the first incarnation (none has run yet)
	err := w.Restart()
	vAssert("C02.restart.ok", err == nil && w.IsRunning())
	vPrologueEnd()
	vAtQuiescence(func() {
		vReach("C02.restart.quiescent")
		vAssert("C02.restart.no-second-dispatcher", vLibGoroutinesAlive() == before)
	})
}

// the same from the Paused state
func H_C02_restart_paused_single_loop() {
	w := NewWorker(func(j Job[int]) {}, 1)
	w.BindQueue()
	before := vLibGoroutinesAlive()
	perr := w.Pause()
	err := w.Restart()
	vAssert("C02.restart-paused.ok", perr == nil && err == nil && w.IsRunning())
	vPrologueEnd()
	vAtQuiescence(func() {
		vReach("C02.restart-paused.quiescent")
		vAssert("C02.restart-paused.no-second-dispatcher", vLibGoroutinesAlive() == before)
	})
}
