package varmq

func H_smoke() {
	runs := 0
	w := NewWorker(func(j Job[int]) {
		runs++
		vAssert("smoke.data", j.Data() == 7)
	}, 1)
	q := w.BindQueue()
	j, ok := q.Add(7)
	vAssert("smoke.accepted", ok)
	j.Wait()
	vAssert("smoke.ran", runs == 1)
	vReach("smoke.end")
	vAtQuiescence(func() {
		vAssert("smoke.q.runs", runs == 1)
		vReach("smoke.q")
	})
}
