package varmq

// Harness API: declared without bodies for the encoder (gobmc intercepts them);
// vapi_replay.go supplies native bodies for replay builds.

func vNondetInt() int
func vNondetRange(lo, hi int) int
func vNondetBool() bool
func vNondetUint8() uint8
func vNondetString() string
func vAssume(c bool)
func vPrologueEnd()

// vLibGoroutinesAlive: number of goroutines started by library code (not by the harness) that have not finished
func vLibGoroutinesAlive() int
func vAssert(id string, c bool)
func vReach(id string)
func vAtQuiescence(f func())
func vAtAnyCut(f func())
