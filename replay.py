"""Replay of a counterexample against the natively compiled repository.

The repository's sources (current working tree) are instrumented by `gobmc -instrument` so that every
synchronisation operation first calls the replay controller (shim/vsched); the build uses
`go test -overlay`, nothing is written into /repo."""
import json, os, re, shutil, subprocess, sys, tempfile

ROOT = os.path.dirname(os.path.abspath(__file__))
GOBMC = os.path.join(ROOT, "bin", "gobmc")
REPO = os.environ.get("VERIF_REPO", "/repo")

TEST_TMPL = '''package %(pkgname)s

import (
	"os"
	"testing"

	vsched "github.com/goptics/varmq/internal/zzverif/vsched"
)

func TestVerifReplay(t *testing.T) {
	vsched.Run(os.Getenv("VERIF_CEX"), %(entry)s)
}
'''


def pkg_name(pkgdir):
    if pkgdir in (".", ""):
        return "varmq"
    return os.path.basename(pkgdir)


def build_overlay(h, work, racy=""):
    instr = os.path.join(work, "instr")
    r = subprocess.run([GOBMC, "-repo", REPO, "-instrument", instr, "-racyfields", racy, "-overlay", os.path.join(ROOT, "harness", h["dir"]), "-pkg", h["pkg"]],
                       capture_output=True, text=True)
    if r.returncode != 0:
        return None, "instrumentation failed: " + r.stderr.strip()[-500:]
    files = json.load(open(os.path.join(instr, "files.json")))
    pkgabs = os.path.normpath(os.path.join(REPO, h["pkg"]))
    test = os.path.join(work, "replay_test.go")
    open(test, "w").write(TEST_TMPL % {"pkgname": pkg_name(h["pkg"]), "entry": h["entry"]})
    files[os.path.join(pkgabs, "zz_verif_replay_test.go")] = test
    files[os.path.join(pkgabs, "zz_verif_vapi_replay.go")] = os.path.join(ROOT, "harness", h["dir"], "vapi_replay.go")
    files[os.path.join(REPO, "internal/zzverif/vsched/vsched.go")] = os.path.join(ROOT, "shim/vsched/vsched.go")
    ov = os.path.join(work, "overlay.json")
    json.dump({"Replace": files}, open(ov, "w"))
    return ov, ""


def run_replay(cexdir, race=False, keep=False):
    cex = json.load(open(os.path.join(cexdir, "cex.json")))
    h = cex["harness"]
    work = tempfile.mkdtemp(prefix="verif-replay-", dir="/var/tmp")
    try:
        cells = []
        for x in (cex.get("racy_cells") or []):
            if "@" not in x and "." in x:
                cells.append(x)  # Type.field
                continue
            m = re.match(r"^(\w+)@(?:.*/)?([^/@]+\.go):(\d+)$", x)
            if m:
                cells.append("%s@%s:%s" % m.groups())  # a captured local variable: name@file:line of its declaration
        racy = ",".join(sorted(set(cells)))
        ov, msg = build_overlay(h, work, racy)
        if ov is None:
            return None, msg, ""
        env = dict(os.environ, VERIF_CEX=os.path.join(cexdir, "cex.json"), GOFLAGS="-mod=mod", GOPROXY="off",
                   VERIF_POINTS=os.path.join(work, "instr", "points.txt"))
        env.pop("GOTOOLCHAIN", None)
        cmd = ["go", "test", "-overlay", ov, "-vet=off", "-count=1", "-run", "^TestVerifReplay$", "-timeout", "120s", "-v"]
        if race:
            cmd.append("-race")
        cmd.append("./" + h["pkg"])
        try:
            r = subprocess.run(cmd, cwd=REPO, env=env, capture_output=True, text=True, timeout=300)
        except subprocess.TimeoutExpired:
            return None, "replay build/run timed out", ""
        out = r.stdout + r.stderr
        open(os.path.join(cexdir, "replay.log"), "w").write(out)
        m = re.search(r"REPLAY-RESULT (\{.*\})", out)
        res = json.loads(m.group(1)) if m else None
        return res, "", out
    finally:
        if not keep:
            shutil.rmtree(work, ignore_errors=True)


def replay_dir(cexdir):
    """Returns (reproduced, message)."""
    cex = json.load(open(os.path.join(cexdir, "cex.json")))
    ob = cex["obligation"]
    race = ob.startswith("race[")
    res, msg, out = run_replay(cexdir, race=race)
    if race:
        # once both goroutines are released the detector normally reports at the second access; if the process
        # dies first for another reason (e.g. a panic further down the same schedule) the run is repeated
        # ... and on a loaded machine the two released goroutines may be scheduled so far apart that the detector's
        # shadow state of the first access is gone: a silent run is repeated as well
        for _ in range(3):
            if "WARNING: DATA RACE" in out:
                break
            res, msg, out = run_replay(cexdir, race=race)
    if res is None and not out:
        return False, msg
    crashed = ("panic:" in out or "fatal error:" in out) and "REPLAY-RESULT" not in out
    if ob == "no-crash":
        if crashed:
            m = re.search(r"(panic: .*|fatal error: .*)", out)
            return True, m.group(1) if m else "process crashed"
        if res and res.get("diverged"):
            return False, "diverged: " + res["diverged"]
        return False, "process did not crash"
    if race and "WARNING: DATA RACE" in out:
        return True, "race detector reported a data race"
    if ("REPLAY-ASSERT-FAILED " + ob + "\n") in out and not race:
        return True, "assertion %s failed natively%s" % (ob, " (the process panicked later in the same run)" if crashed else "")
    if crashed:
        return False, "process crashed during replay (expected assertion %s)" % ob
    if res is None:
        return False, "no REPLAY-RESULT (build failure?): " + out[-400:]
    if race:
        if "WARNING: DATA RACE" in out:
            return True, "race detector reported a data race"
        return False, "race detector silent" + ("; diverged: " + res["diverged"] if res.get("diverged") else "")
    if res.get("diverged"):
        return False, "diverged: " + res["diverged"]
    if res.get("assume_violations"):
        return False, "assumption violated natively"
    if ob in (res.get("failed") or []):
        return True, "assertion %s failed natively after %d/%d steps" % (ob, res["steps_replayed"], res["steps_total"])
    return False, "assertion %s held natively (failed: %s)" % (ob, res.get("failed"))


def replay_path(path):
    ok, msg = replay_dir(path)
    print(("REPRODUCED: " if ok else "NOT-REPRODUCED: ") + msg)
    return 1 if ok else 0


if __name__ == "__main__":
    sys.exit(replay_path(sys.argv[1]))
