"""Translator self-test: concrete harnesses (inputs of the repository's own unit tests) are run through the
encoder, where every assertion must fold to 'holds', and natively (replay build with an empty schedule), where
no assertion may fail. A difference is an encoder bug."""
import json, os, subprocess, sys, tempfile, shutil

ROOT = os.path.dirname(os.path.abspath(__file__))
GOBMC = os.path.join(ROOT, "bin", "gobmc")
REPO = os.environ.get("VERIF_REPO", "/repo")
TESTS = [
    {"entry": "H_selftest_helpers", "dir": "helpers", "pkg": "internal/helpers"},
    {"entry": "H_selftest_queues", "dir": "queues", "pkg": "internal/queues"},
]


def selftest():
    from replay import run_replay
    bad = 0
    for h in TESTS:
        work = tempfile.mkdtemp(prefix="verif-selftest-", dir="/var/tmp")
        try:
            out = os.path.join(work, "r.json")
            subprocess.run([GOBMC, "-repo", REPO, "-overlay", os.path.join(ROOT, "harness", h["dir"]), "-pkg", h["pkg"], "-entry", h["entry"],
                            "-R", "1", "-U", "9", "-out", out], capture_output=True, text=True)
            res = json.load(open(out))
            if res.get("error"):
                print("SELFTEST %s: encoder error: %s" % (h["entry"], res["error"].split("\n")[0]))
                bad += 1
                continue
            wrong = [o["id"] for o in res["obligations"] if o["verdict"] != "unsat"]
            n = len(res["obligations"])
            # native run with an empty schedule
            os.makedirs(os.path.join(work, "cex"))
            json.dump({"property": "selftest", "harness": h, "obligation": "selftest", "cex": {"trace": [], "nondet_seq": []}},
                      open(os.path.join(work, "cex", "cex.json"), "w"))
            r, msg, log = run_replay(os.path.join(work, "cex"))
            failed = (r or {}).get("failed") if r is not None else ["<no native result: %s>" % (msg or log[-300:])]
            if wrong or failed:
                print("SELFTEST %s: MISMATCH encoder-violated=%s native-failed=%s" % (h["entry"], wrong, failed))
                bad += 1
            else:
                print("SELFTEST %s: ok (%d assertions hold in the encoding and natively)" % (h["entry"], n))
        finally:
            shutil.rmtree(work, ignore_errors=True)
    return 2 if bad else 0


if __name__ == "__main__":
    sys.path.insert(0, ROOT)
    sys.exit(selftest())
