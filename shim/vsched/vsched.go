// Package vsched is the replay controller. It exists only in the overlay of a replay build
// (mapped to <repo>/internal/zzverif/vsched); the repository itself never contains it.
//
// Instrumented code calls Point(pos, kind) before every synchronisation operation. During a
// controlled replay exactly one goroutine runs at a time: the controller walks the trace of the
// counterexample and releases the goroutine the next event belongs to, checking the program point.
// After the trace it lets everything run free, waits for the program to settle, evaluates the
// harness's final-state predicates and prints one REPLAY-RESULT line.
package vsched

import (
	"encoding/json"
	"fmt"
	"os"
	"runtime"
	"strconv"
	"strings"
	"sync"
	"sync/atomic"
	"time"
)

type step struct {
	T     int    `json:"t"`
	Op    string `json:"op"`
	Pos   string `json:"pos"`
	Spawn int    `json:"spawn"`
}

type nondet struct {
	Name  string `json:"name"`
	T     int    `json:"t"`
	Kind  string `json:"kind"`
	Value string `json:"value"`
}

type cexFile struct {
	Obligation string `json:"obligation"`
	Cex        struct {
		Trace     []step   `json:"trace"`
		NondetSeq []nondet `json:"nondet_seq"`
	} `json:"cex"`
}

type arrival struct {
	tid       int
	pos, kind string
	exit      bool
	parked    bool // an "enter" arrival of a spawned goroutine: it waits for a grant before its first instruction
}

type thread struct {
	byEvent bool // the last release was for an event of the trace
	last    int  // index of the trace event this goroutine was last released for
	lib     bool
	id      int
	grant   chan struct{}
	at      *arrival // parked at this point (nil = running or finished)
	done    bool
	parked  bool // parked in CondWait between park and wake
}

var (
	mu        sync.Mutex
	active    bool // controlled mode
	free      bool // free-run mode (after the trace)
	threads   = map[int]*thread{}
	gids      = map[uint64]int{} // goroutine id -> model thread
	arrivals  = make(chan arrival, 1024)
	trace     []step
	cursor    int
	spawnQ    []int
	nondets   map[string][]string
	failed    []string
	assumeBad []string
	atQuiesce []func()
	atCut     []func()
	diverged  string
	curSpawn  int
)

func gid() uint64 {
	var buf [64]byte
	n := runtime.Stack(buf[:], false)
	f := strings.Fields(string(buf[:n]))
	id, _ := strconv.ParseUint(f[1], 10, 64)
	return id
}

func self() *thread {
	mu.Lock()
	defer mu.Unlock()
	if id, ok := gids[gid()]; ok {
		return threads[id]
	}
	return nil
}

func register(id int) *thread {
	mu.Lock()
	defer mu.Unlock()
	t := &thread{id: id, grant: make(chan struct{}, 1), last: -1}
	threads[id] = t
	gids[gid()] = id
	return t
}

// Point is called before every synchronisation operation.
func Point(pos, kind string) { point(pos, kind) }

// TickPoint: the point before a receive from a ticker's channel. Ticks exist only as events of the trace (the
// model bounds them by K); once the trace is exhausted the ticker is silent, so the goroutine parks for good.
func TickPoint(pos, kind string) {
	if !active {
		return
	}
	if !point(pos, kind) {
		select {}
	}
}

// point reports whether the goroutine was released for an event of the trace (false: pass-through or free run).
func point(pos, kind string) bool {
	if !active || freeFlag.Load() {
		// free run: no shared lock is touched here - a mutex of the controller would order the goroutines'
		// plain accesses and hide exactly the races a race replay is meant to expose
		return false
	}
	t := self()
	if t == nil {
		return false // a goroutine the model does not know (none expected)
	}
	mu.Lock()
	if free {
		mu.Unlock()
		return false
	}
	mu.Unlock()
	if kind == "load" || kind == "store" {
		// a point before a plain access: gate it only if it is this goroutine's next event in the trace
		next := -1
		mu.Lock()
		from := t.last + 1
		mu.Unlock()
		for i := from; i < len(trace); i++ {
			if trace[i].T == t.id {
				next = i
				break
			}
		}
		if next >= 0 && (trace[next].Pos != pos || trace[next].Op != kind) {
			return false
		}
		// next < 0: the trace has nothing more for this goroutine - it parks right before the plain access
		// (that is where the model left it) and is released together with everything else at the end
	}
	if dbg {
		fmt.Println("VSCHED park", t.id, kind, pos)
	}
	arrivals <- arrival{tid: t.id, pos: pos, kind: kind}
	<-t.grant
	if dbg {
		fmt.Println("VSCHED release", t.id, kind, pos)
	}
	mu.Lock()
	ev := t.byEvent
	t.byEvent = false
	mu.Unlock()
	return ev
}

func Do0(pos, kind string, f func())                         { Point(pos, kind); f() }
func Do1[A any](pos, kind string, f func(A), a A)            { Point(pos, kind); f(a) }
func Do2[A, B any](pos, kind string, f func(A, B), a A, b B) { Point(pos, kind); f(a, b) }
func Call0[T any](pos, kind string, f func() T) T            { Point(pos, kind); return f() }
func Call1[A, T any](pos, kind string, f func(A) T, a A) T   { Point(pos, kind); return f(a) }
func Call2[A, B, T any](pos, kind string, f func(A, B) T, a A, b B) T {
	Point(pos, kind)
	return f(a, b)
}

// CondWait replaces sync.Cond.Wait: unlock + park is one step, being woken and re-locking another.
func CondWait(pos string, c *sync.Cond) {
	if !active {
		c.Wait()
		return
	}
	mu.Lock()
	fr := free
	mu.Unlock()
	if fr {
		c.Wait()
		return
	}
	Point(pos, "Cond.Wait(park)")
	c.L.Unlock()
	mu.Lock()
	fr = free
	mu.Unlock()
	if fr {
		// the trace ended while this goroutine was parking: fall back to the real condition variable
		c.L.Lock()
		c.Wait()
		return
	}
	if point(pos, "Cond.Wait(wake)") {
		c.L.Lock()
		return
	}
	// released because the controlled phase ended while the model still has this goroutine parked: from now
	// on it waits on the real condition variable (only a real Broadcast/Signal after this point wakes it)
	c.L.Lock()
	c.Wait()
}

// Spawn is called by the parent right before the go statement; Enter/Exit by the child.
func Spawn(pos string) int {
	if !active {
		return -1
	}
	mu.Lock()
	defer mu.Unlock()
	if free || self2() == nil {
		return -1
	}
	id := curSpawn
	curSpawn = -1
	if id <= 0 {
		id = -1
	} else {
		libSpawn[id] = !strings.Contains(pos, "zz_verif_")
	}
	return id
}

var libSpawn = map[int]bool{}
var freeFlag atomic.Bool
var dbg = os.Getenv("VERIF_DEBUG") != ""

// LibGoroutinesAlive counts goroutines started by library code during the controlled phase that have not ended.
func LibGoroutinesAlive() int {
	mu.Lock()
	defer mu.Unlock()
	n := 0
	for id, t := range threads {
		if libSpawn[id] && !t.done {
			n++
		}
	}
	return n
}

func self2() *thread { // mu held
	if id, ok := gids[gid()]; ok {
		return threads[id]
	}
	return nil
}

func Enter(tok int) {
	if !active || tok < 0 {
		return
	}
	t := register(tok)
	if freeFlag.Load() {
		return
	}
	// a spawned goroutine does not execute anything before the model schedules it for the first time: it parks
	// here until its first event in the trace is due (or until the free run)
	arrivals <- arrival{tid: tok, kind: "enter", parked: true}
	<-t.grant
}

func Exit(tok int) {
	if !active || tok < 0 {
		return
	}
	mu.Lock()
	if t := threads[tok]; t != nil {
		t.done = true
	}
	fr := free
	mu.Unlock()
	if !fr {
		arrivals <- arrival{tid: tok, exit: true}
	}
}

// ---- harness API (native side)
func pop(tid int, kind string) (string, bool) {
	mu.Lock()
	defer mu.Unlock()
	k := fmt.Sprintf("%d/%s", tid, kind)
	q := nondets[k]
	if len(q) == 0 {
		return "", false
	}
	nondets[k] = q[1:]
	return q[0], true
}

func tidOrZero() int {
	if t := self(); t != nil {
		return t.id
	}
	return 0
}

func NondetInt() int {
	v, ok := pop(tidOrZero(), "int")
	if !ok {
		return 0
	}
	n, _ := strconv.ParseInt(v, 10, 64)
	return int(n)
}
func NondetBool() bool {
	v, _ := pop(tidOrZero(), "bool")
	return v == "true"
}
func NondetUint8() uint8 {
	v, _ := pop(tidOrZero(), "u8")
	n, _ := strconv.ParseUint(v, 10, 8)
	return uint8(n)
}
func NondetString() string {
	v, _ := pop(tidOrZero(), "str")
	return v
}
func Assume(c bool) {
	if !c {
		mu.Lock()
		assumeBad = append(assumeBad, "assumption false natively")
		mu.Unlock()
	}
}
func Assert(id string, c bool) {
	if !c {
		mu.Lock()
		failed = append(failed, id)
		mu.Unlock()
		// printed at once: the process may die later in the same run (e.g. a panic further down the schedule)
		fmt.Println("REPLAY-ASSERT-FAILED", id)
	}
}
func Reach(id string)       {}
func AtQuiescence(f func()) { mu.Lock(); atQuiesce = append(atQuiesce, f); mu.Unlock() }
func AtAnyCut(f func())     { mu.Lock(); atCut = append(atCut, f); mu.Unlock() }

// ---- controller
type result struct {
	Failed     []string `json:"failed"`
	Diverged   string   `json:"diverged,omitempty"`
	Assume     []string `json:"assume_violations,omitempty"`
	Steps      int      `json:"steps_replayed"`
	Total      int      `json:"steps_total"`
	Settled    bool     `json:"settled"`
	Goroutines string   `json:"goroutines,omitempty"`
}

func gated(op string) bool { return op != "load" && op != "store" }

// Run replays the counterexample in file against entry.
func Run(file string, entry func()) {
	var cf cexFile
	b, err := os.ReadFile(file)
	if err != nil {
		fmt.Println("REPLAY-RESULT", `{"diverged":"cannot read cex"}`)
		return
	}
	json.Unmarshal(b, &cf)
	points := map[string]bool{}
	if pb, err := os.ReadFile(os.Getenv("VERIF_POINTS")); err == nil {
		for _, l := range strings.Split(string(pb), "\n") {
			points[strings.TrimSpace(l)] = true
		}
	}
	for _, s := range cf.Cex.Trace {
		if gated(s.Op) || points[s.Pos+" "+s.Op] {
			trace = append(trace, s)
		}
	}
	nondets = map[string][]string{}
	for _, n := range cf.Cex.NondetSeq {
		k := fmt.Sprintf("%d/%s", n.T, n.Kind)
		nondets[k] = append(nondets[k], n.Value)
	}
	active = true
	mainDone := make(chan struct{})
	go func() {
		register(0)
		arrivals <- arrival{tid: 0, kind: "enter"}
		entry()
		Exit(0)
		close(mainDone)
	}()
	res := result{Total: len(trace)}
	waitArrive := func(tid int, why string) *arrival {
		// wait until thread tid is parked at a point or has finished
		deadline := time.After(5 * time.Second)
		for {
			mu.Lock()
			t := threads[tid]
			if t != nil && (t.at != nil || t.done) {
				a := t.at
				mu.Unlock()
				return a
			}
			mu.Unlock()
			select {
			case a := <-arrivals:
				mu.Lock()
				t := threads[a.tid]
				if t != nil {
					if a.exit {
						t.done = true
						t.at = nil
					} else if a.kind == "enter" {
						if a.parked {
							aa := a
							t.at = &aa
						}
						// (the harness goroutine itself is not parked: its first real point follows)
					} else {
						aa := a
						t.at = &aa
					}
				}
				mu.Unlock()
			case <-deadline:
				diverged = fmt.Sprintf("goroutine %d did not reach its next synchronisation point (%s)", tid, why)
				return nil
			}
		}
	}
	waitArrive(0, "start")
	for cursor = 0; cursor < len(trace) && diverged == ""; cursor++ {
		ev := trace[cursor]
		a := waitArrive(ev.T, fmt.Sprintf("expected %s at %s", ev.Op, ev.Pos))
		if diverged != "" {
			break
		}
		if a != nil && a.kind == "enter" {
			// first event of a spawned goroutine: let it start and run to its first point
			mu.Lock()
			t0 := threads[ev.T]
			t0.at = nil
			mu.Unlock()
			t0.grant <- struct{}{}
			a = waitArrive(ev.T, fmt.Sprintf("expected %s at %s (after start)", ev.Op, ev.Pos))
			if diverged != "" {
				break
			}
		}
		if (ev.Op == "load" || ev.Op == "store") && (a == nil || a.pos != ev.Pos || a.kind != ev.Op) {
			// a plain access the native code does not stop at separately (one statement-level point stands for all
			// accesses of the statement): nothing to release, the goroutine is already past it
			continue
		}
		if a == nil {
			diverged = fmt.Sprintf("step %d: goroutine %d has finished, model expects %s at %s", cursor, ev.T, ev.Op, ev.Pos)
			break
		}
		if a.pos != ev.Pos || a.kind != ev.Op {
			diverged = fmt.Sprintf("step %d: goroutine %d is at %s %s, model expects %s %s", cursor, ev.T, a.kind, a.pos, ev.Op, ev.Pos)
			break
		}
		mu.Lock()
		t := threads[ev.T]
		t.at = nil
		t.byEvent = true
		t.last = cursor
		if ev.Op == "go" {
			curSpawn = ev.Spawn
		}
		mu.Unlock()
		t.grant <- struct{}{}
		// the released goroutine runs alone until its next point (or its end)
		waitArrive(ev.T, fmt.Sprintf("after %s at %s", ev.Op, ev.Pos))
		if ev.Op == "go" && ev.Spawn > 0 && diverged == "" {
			waitArrive(ev.Spawn, "first point of spawned goroutine")
		}
	}
	res.Steps = cursor
	res.Diverged = diverged
	if diverged == "" {
		// cut-point predicates see exactly the model's final state
		for _, f := range atCut {
			f()
		}
	}
	// free run: everything proceeds; a quiescent model state means nothing more happens
	// goroutines parked right before a plain access (race replays) go first and get a head start, so that the
	// detector sees both accesses before anything else (e.g. a panic further down the schedule) ends the process
	mu.Lock()
	free = true
	freeFlag.Store(true)
	var rest []*thread
	for _, t := range threads {
		if t.at != nil && (t.at.kind == "load" || t.at.kind == "store") {
			select {
			case t.grant <- struct{}{}:
			default:
			}
		} else {
			rest = append(rest, t)
		}
	}
	mu.Unlock()
	if len(rest) != len(threads) {
		time.Sleep(50 * time.Millisecond)
	}
	for _, t := range rest {
		select {
		case t.grant <- struct{}{}:
		default:
		}
	}
	go func() {
		// late arrivals (a goroutine that tested the mode just before the switch) are released at once
		for a := range arrivals {
			mu.Lock()
			t := threads[a.tid]
			mu.Unlock()
			if t != nil && a.exit {
				mu.Lock()
				t.done = true
				t.at = nil
				mu.Unlock()
			}
			if t != nil && !a.exit && (a.kind != "enter" || a.parked) {
				select {
				case t.grant <- struct{}{}:
				default:
				}
			}
		}
	}()
	settle := 300 * time.Millisecond
	if v := os.Getenv("VERIF_SETTLE_MS"); v != "" {
		if n, err := strconv.Atoi(v); err == nil {
			settle = time.Duration(n) * time.Millisecond
		}
	}
	time.Sleep(settle)
	d1 := dump()
	time.Sleep(settle / 2)
	d2 := dump()
	res.Settled = d1 == d2
	if diverged == "" {
		mu.Lock()
		qs := append([]func(){}, atQuiesce...)
		mu.Unlock()
		for _, f := range qs {
			f()
		}
	}
	mu.Lock()
	res.Failed = append([]string{}, failed...)
	res.Assume = assumeBad
	mu.Unlock()
	if os.Getenv("VERIF_DUMP") != "" {
		res.Goroutines = d2
	}
	out, _ := json.Marshal(res)
	fmt.Println("REPLAY-RESULT", string(out))
	_ = mainDone
}

// dump returns a normalised goroutine dump (function + state per goroutine of the module).
func dump() string {
	buf := make([]byte, 1<<20)
	n := runtime.Stack(buf, true)
	var out []string
	for _, g := range strings.Split(string(buf[:n]), "\n\n") {
		if !strings.Contains(g, "goptics/varmq") || strings.Contains(g, "vsched.Run") || strings.Contains(g, "vsched.dump") {
			continue
		}
		lines := strings.Split(g, "\n")
		if len(lines) < 2 {
			continue
		}
		hdr := lines[0]
		if i := strings.Index(hdr, "["); i >= 0 {
			hdr = hdr[i:]
			if j := strings.Index(hdr, ","); j >= 0 {
				hdr = hdr[:j] + "]"
			}
		}
		out = append(out, hdr+" "+strings.TrimSpace(lines[1]))
	}
	return strings.Join(out, "\n")
}
